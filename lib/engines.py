"""Execution engines: native, asan, miri, strace, valgrind. Every workload runs in a child process."""
import json
import os
import re
import signal
import subprocess
import sys
import time

HARNESS = "harness"
NATIVE_BIN = "target/release/vh"
ASAN_TARGET_DIR = "target/asan"
ASAN_BIN = ASAN_TARGET_DIR + "/x86_64-unknown-linux-gnu/release/vh"
MIRI_TARGET_DIR = "target/miri"

BASE_ENV = {
    "CARGO_NET_OFFLINE": "true",
    "RUST_BACKTRACE": "0",
}


def _env(extra=None):
    e = dict(os.environ)
    e.update(BASE_ENV)
    if extra:
        e.update(extra)
    return e


def _tail(s, n=6000):
    return s[-n:] if len(s) > n else s


class Ctx:
    def __init__(self, root, pid, tier, seed):
        self.root = root
        self.pid = pid
        self.tier = tier
        self.seed = seed
        self.replay_dir = os.path.join(root, "replay", pid)

    # ------------------------------------------------------------------ builds
    def build(self, engines):
        """Rebuild the harness (and thereby /repo's working tree) for every engine needed."""
        hdir = os.path.join(self.root, HARNESS)
        lock = os.path.join(hdir, "Cargo.lock")
        if not os.path.exists(lock):
            return "harness/Cargo.lock missing"
        self._track_c_sources(hdir)
        if engines & {"native", "strace", "valgrind"}:
            r = subprocess.run(["cargo", "build", "--release", "--offline", "--bin", "vh"], cwd=hdir,
                               env=_env(), capture_output=True, text=True)
            if r.returncode != 0:
                return "native build: " + _tail(r.stderr, 1500)
        if "vha" in engines:
            r = subprocess.run(["cargo", "build", "--release", "--offline", "--bin", "vha"], cwd=os.path.join(self.root, "harness-async"),
                               env=_env(), capture_output=True, text=True)
            if r.returncode != 0:
                return "async harness build: " + _tail(r.stderr, 1500)
        if "asan" in engines:
            r = subprocess.run(
                ["cargo", "+nightly", "build", "--release", "--offline", "--bin", "vh",
                 "--target", "x86_64-unknown-linux-gnu",
                 "--target-dir", os.path.join(self.root, ASAN_TARGET_DIR)],
                cwd=hdir,
                env=_env({"RUSTFLAGS": "-Zsanitizer=address -Cforce-frame-pointers=yes"}),
                capture_output=True, text=True)
            if r.returncode != 0:
                return "asan build: " + _tail(r.stderr, 1500)
        if "miri" in engines:
            # Build (and cache) once so the sharded runs do not race on the target dir.
            r = subprocess.run(
                ["cargo", "+nightly", "miri", "run", "--offline", "--bin", "m_noop",
                 "--target-dir", os.path.join(self.root, MIRI_TARGET_DIR)],
                cwd=hdir, env=_env({"MIRIFLAGS": "-Zmiri-disable-isolation"}), capture_output=True, text=True)
            if r.returncode != 0:
                return "miri build: " + _tail(r.stderr, 1500)
        return None

    def _track_c_sources(self, hdir):
        """The cc build script of signal-hook only emits rerun-if-env-changed, so cargo does not notice an edited
        extract.c. Force a rebuild of that package (in every target dir) when the C source or build.rs changed."""
        import hashlib
        h = hashlib.sha256()
        for f in ("/repo/src/low_level/extract.c", "/repo/build.rs"):
            try:
                h.update(open(f, "rb").read())
            except OSError:
                h.update(b"missing")
        digest = h.hexdigest()
        os.makedirs(os.path.join(self.root, "target"), exist_ok=True)
        stamp = os.path.join(self.root, "target", "c-sources.sha256")
        old = open(stamp).read().strip() if os.path.exists(stamp) else ""
        if old != digest:
            for args in (["--release"], ["--release", "--target", "x86_64-unknown-linux-gnu", "--target-dir", os.path.join(self.root, ASAN_TARGET_DIR)]):
                subprocess.run(["cargo", "clean", "--offline", "-p", "signal-hook"] + args, cwd=hdir, env=_env(), capture_output=True)
            subprocess.run(["cargo", "+nightly", "clean", "--offline", "-p", "signal-hook", "--target-dir", os.path.join(self.root, MIRI_TARGET_DIR)],
                           cwd=hdir, env=_env(), capture_output=True)
            with open(stamp, "w") as f:
                f.write(digest)

    # ------------------------------------------------------------------ steps
    def run_step(self, st):
        eng = st["engine"]
        t0 = time.time()
        if eng == "native":
            cmd = [os.path.join(self.root, NATIVE_BIN)] + st["args"]
            res = self._run(cmd, st, {})
        elif eng == "vha":
            cmd = [os.path.join(self.root, "target/release/vha")] + st["args"]
            res = self._run(cmd, st, {})
        elif eng == "asan":
            cmd = [os.path.join(self.root, ASAN_BIN)] + st["args"]
            res = self._run(cmd, st, {
                "ASAN_OPTIONS": "halt_on_error=1:abort_on_error=0:exitcode=77:detect_leaks=%d:handle_segv=1:"
                                "use_sigaltstack=0:allocator_may_return_null=1" % (1 if st.get("leaks", True) else 0),
                "LSAN_OPTIONS": "exitcode=78",
            })
        elif eng == "miri":
            res = self._run_miri(st)
        elif eng == "strace":
            res = self._run_strace(st)
        elif eng == "valgrind":
            cmd = ["valgrind", "--error-exitcode=79", "--leak-check=full", "--errors-for-leak-kinds=definite", "--show-leak-kinds=definite",
                   "--child-silent-after-fork=no", "--quiet", os.path.join(self.root, NATIVE_BIN)] + st["args"]
            res = self._run(cmd, st, {})
        else:
            raise ValueError(eng)
        res["name"] = st["name"]
        res["engine"] = eng
        res["wall_s"] = round(time.time() - t0, 2)
        return res

    def _save_replay(self, st, cmd, env_extra, out, err, how):
        os.makedirs(self.replay_dir, exist_ok=True)
        path = os.path.join(self.replay_dir, "%s-seed%d-%d.json" % (st["name"], self.seed, int(time.time() * 1000) % 100000000))
        with open(path, "w") as f:
            json.dump({"property": self.pid, "step": st["name"], "engine": st["engine"], "cmd": cmd, "cwd": self.root,
                       "env": env_extra, "how": how, "stdout_tail": _tail(out), "stderr_tail": _tail(err)}, f, indent=1)
        return path

    def _classify(self, st, cmd, env_extra, rc, out, err, timed_out):
        """Turns (exit status, output) into summaries / violations / inconclusive."""
        summaries, viols, inconc = [], [], None
        for line in out.splitlines():
            if line.startswith("@@ "):
                try:
                    j = json.loads(line[3:])
                except Exception:
                    continue
                t = j.get("type")
                if t == "summary":
                    summaries.append(j)
                elif t == "violation":
                    if j.get("property") == self.pid or j.get("property") in st.get("also", []):
                        viols.append({"sig": j.get("sig", "?"), "detail": j.get("detail", ""), "step": st["name"]})
                elif t == "inconclusive":
                    inconc = j.get("reason", "workload said inconclusive")
        crash = None
        if timed_out:
            inconc = "watchdog: step exceeded %ds" % st.get("timeout", 300)
        elif rc < 0:
            crash = "killed-by-" + signal.Signals(-rc).name
        elif rc == 77:
            m = re.search(r"ERROR: AddressSanitizer: (\S+)", err)
            crash = "asan-" + (m.group(1) if m else "report")
        elif rc == 78:
            crash = "lsan-leak"
        elif rc == 79:
            crash = "valgrind-error"
        elif rc == 101:
            crash = "panic"
        elif rc == 134 or rc >= 128:
            crash = "exit-%d" % rc
        elif rc == 2:
            inconc = inconc or "workload exit 2"
        elif rc == 3:
            inconc = "harness usage error: " + _tail(err, 300)
        elif rc == 1 and not viols and not any(True for l in out.splitlines() if '"type":"violation"' in l):
            inconc = "exit 1 without a violation record: " + _tail(err, 300)
        elif rc not in (0, 1):
            inconc = "unexpected exit %d: %s" % (rc, _tail(err, 300))
        if crash and st.get("crash_is_violation", True):
            # first in-repo frame / panic message makes the signature specific
            detail = _tail(err, 1500)
            m = re.search(r"panicked at ([^\n]*)\n([^\n]*)", err)
            sig = "crash:" + crash
            if m:
                sig += ":" + re.sub(r"[^A-Za-z0-9_./: -]", "", m.group(2))[:80]
            viols.append({"sig": sig, "detail": "%s in step %s: %s" % (crash, st["name"], detail), "step": st["name"]})
            inconc = None
        elif crash:
            inconc = "crashed (%s) but crash is not a verdict for this step" % crash
        if viols:
            path = self._save_replay(st, cmd, env_extra, out, err, "violation")
            for v in viols:
                v["replay"] = path
        return {"exit": rc, "summaries": summaries, "violations": viols, "inconclusive": inconc,
                "stderr_tail": _tail(err, 800)}

    @staticmethod
    def _sigq():
        try:
            for l in open("/proc/self/status"):
                if l.startswith("SigQ:"):
                    a, b = l[5:].strip().split("/")
                    return int(a), int(b)
        except Exception:
            pass
        return 0, 1

    def _run(self, cmd, st, env_extra):
        # The user's pending-signal quota is shared by every process of this uid. When another process exhausts it,
        # the kernel delivers signals without siginfo and refuses sigqueue: no verdict of a signal workload can be
        # trusted then. Sample it around the step.
        q0 = self._sigq()
        res = self._run_inner(cmd, st, env_extra)
        q1 = self._sigq()
        worst = max(q0[0] / max(q0[1], 1), q1[0] / max(q1[1], 1))
        if worst > 0.5 and (res["violations"] or res["exit"] not in (0,)):
            res["violations"] = []
            res["inconclusive"] = "environment: pending-signal quota of the user at %d%% (SigQ %d/%d -> %d/%d), another process is flooding it" % (
                int(worst * 100), q0[0], q0[1], q1[0], q1[1])
        return res

    def _run_inner(self, cmd, st, env_extra):
        timeout = st.get("timeout", 300)
        timed_out = False
        try:
            p = subprocess.Popen(cmd, cwd=self.root, env=_env(env_extra), stdout=subprocess.PIPE,
                                 stderr=subprocess.PIPE, text=True, errors="replace", start_new_session=True)
            try:
                out, err = p.communicate(timeout=timeout)
            except subprocess.TimeoutExpired:
                timed_out = True
                try:
                    os.killpg(p.pid, signal.SIGKILL)
                except Exception:
                    p.kill()
                out, err = p.communicate()
            rc = p.returncode
        except FileNotFoundError as e:
            return {"exit": -999, "summaries": [], "violations": [], "inconclusive": "cannot run: %s" % e, "stderr_tail": ""}
        return self._classify(st, cmd, env_extra, rc, out, err, timed_out)

    # ------------------------------------------------------------------ miri
    def _run_miri(self, st):
        """st: bin, args, seeds (count), shards, flags (list). Seeds [seed*N, seed*N+N) are split over shards."""
        hdir = os.path.join(self.root, HARNESS)
        n = st["seeds"]
        shards = min(st.get("shards", 16), n)
        base = self.seed * n
        procs = []
        per = (n + shards - 1) // shards
        rates = st.get("preemption_rates", ["0.01", "0.05", "0.2"])
        for k in range(shards):
            a, b = base + k * per, min(base + (k + 1) * per, base + n)
            if a >= b:
                continue
            # a weak compare-exchange that mostly fails (Miri's default, 0.8) hides what the success ordering does and one
            # that never fails hides what the retry path does: rotate
            cas = st.get("cas_failure_rates", ["0.8", "0.0", "0.3"])
            flags = ["-Zmiri-many-seeds=%d..%d" % (a, b), "-Zmiri-disable-isolation",
                     "-Zmiri-preemption-rate=" + rates[k % len(rates)],
                     "-Zmiri-compare-exchange-weak-failure-rate=" + cas[(k // len(rates)) % len(cas)]] + st.get("flags", [])
            cmd = ["cargo", "+nightly", "miri", "run", "--offline", "--bin", st["bin"],
                   "--target-dir", os.path.join(self.root, MIRI_TARGET_DIR), "--"] + st["args"]
            env_extra = {"MIRIFLAGS": " ".join(flags)}
            p = subprocess.Popen(cmd, cwd=hdir, env=_env(env_extra), stdout=subprocess.PIPE, stderr=subprocess.PIPE,
                                 text=True, errors="replace", start_new_session=True)
            procs.append((p, cmd, env_extra, (a, b)))
        deadline = time.time() + st.get("timeout", 600)
        outs = []
        timed_out = False
        for p, cmd, env_extra, rng in procs:
            try:
                out, err = p.communicate(timeout=max(1, deadline - time.time()))
            except subprocess.TimeoutExpired:
                timed_out = True
                try:
                    os.killpg(p.pid, signal.SIGKILL)
                except Exception:
                    p.kill()
                out, err = p.communicate()
            outs.append((p.returncode, out, err, cmd, env_extra, rng))
        summaries, viols, inconc = [], [], None
        seeds_ok = 0
        for rc, out, err, cmd, env_extra, rng in outs:
            for line in out.splitlines():
                if line.startswith("@@ "):
                    try:
                        j = json.loads(line[3:])
                    except Exception:
                        continue
                    if j.get("type") == "summary":
                        summaries.append(j)
                        seeds_ok += 1
                    elif j.get("type") == "violation" and (j.get("property") == self.pid or j.get("property") in st.get("also", [])):
                        path = self._save_replay(st, cmd, env_extra, out, err, "violation")
                        viols.append({"sig": j.get("sig", "?"), "detail": j.get("detail", ""), "step": st["name"], "replay": path})
            diag = None
            m = re.search(r"error: (Undefined Behavior|unsupported operation|deadlock|the evaluated program (?:leaked memory|deadlocked|aborted|panicked)|memory leaked|abnormal termination)[^\n]*", err)
            if m:
                diag = m.group(0)
            elif "Data race detected" in err:
                diag = "error: Undefined Behavior: Data race detected"
            elif "panicked at" in err and rc != 0:
                pm = re.search(r"panicked at ([^\n]*)\n([^\n]*)", err)
                diag = "panic: " + (pm.group(2) if pm else "?")
            if diag:
                if "unsupported operation" in diag:
                    inconc = "miri: " + diag
                else:
                    fm = re.search(r"Trying seed: (\d+)", err)
                    seed_txt = re.findall(r"(?:Trying|failing) seed: (\d+)", err)
                    path = self._save_replay(st, cmd, env_extra, out, err, "miri diagnostic")
                    sig = "miri:" + re.sub(r"alloc\d+|0x[0-9a-f]+|t\d+|seed: \d+", "_", diag)[:160]
                    viols.append({"sig": sig, "detail": "%s (seeds %d..%d %s) %s" % (diag, rng[0], rng[1], seed_txt[-1:] , _tail(err, 1200)),
                                  "step": st["name"], "replay": path})
            elif rc != 0 and not timed_out:
                inconc = inconc or ("miri exit %d: %s" % (rc, _tail(err, 400)))
        if timed_out and not viols:
            inconc = "watchdog: miri step exceeded %ds" % st.get("timeout", 600)
        if viols:
            inconc = None
        return {"exit": max([o[0] or 0 for o in outs] + [0]), "summaries": summaries, "violations": viols,
                "inconclusive": inconc, "stderr_tail": "", "miri_seeds": n, "miri_seed_summaries": seeds_ok}

    # ------------------------------------------------------------------ strace
    def _run_strace(self, st):
        import straceparse
        os.makedirs(os.path.join(self.root, "target"), exist_ok=True)
        trace = os.path.join(self.root, "target", "strace-%s-%s-%d.txt" % (self.pid, st["name"], os.getpid()))
        cmd = ["strace", "-f", "-qq", "-o", trace, "-e", "trace=all", "-e", "signal=all",
               os.path.join(self.root, NATIVE_BIN)] + st["args"]
        res = self._run(cmd, st, {})
        try:
            extra = straceparse.analyse(trace, st, res["summaries"])
        except Exception as e:  # parser trouble is never a verdict
            res["inconclusive"] = res["inconclusive"] or ("strace parser: %r" % (e,))
            extra = {"violations": [], "summary": {}}
        for v in extra["violations"]:
            if v.get("property", self.pid) != self.pid:
                continue
            path = self._save_replay(st, cmd, {}, json.dumps(v), "", "strace oracle")
            # keep a copy of the trace next to the replay file
            try:
                import shutil
                shutil.copy(trace, path + ".strace")
            except Exception:
                pass
            res["violations"].append({"sig": v["sig"], "detail": v["detail"], "step": st["name"], "replay": path})
        if extra.get("summary"):
            s = dict(extra["summary"])
            s["type"] = "summary"
            s["workload"] = "strace:" + st["name"]
            res["summaries"].append(s)
        try:
            os.unlink(trace)
        except OSError:
            pass
        return res


def replay(pid, path):
    """Re-runs the recorded command (up to 20 times for free-running stress)."""
    with open(path) as f:
        rec = json.load(f)
    print("replaying %s: %s" % (rec.get("step"), " ".join(rec["cmd"])))
    for attempt in range(20):
        p = subprocess.run(rec["cmd"], cwd=rec.get("cwd", "."), env=_env(rec.get("env") or {}), capture_output=True, text=True, errors="replace")
        bad = p.returncode != 0 or '"type":"violation"' in p.stdout
        if bad:
            sys.stdout.write(_tail(p.stdout, 3000))
            sys.stderr.write(_tail(p.stderr, 3000))
            print("VIOLATION property=%s replay=%s" % (pid, path))
            return 1
    print("not reproduced in 20 attempts; recorded output follows")
    print(rec.get("stdout_tail", ""))
    print(rec.get("stderr_tail", ""))
    return 0
