"""Per-property plans: which steps run in which tier, and how evidence is assembled."""

NUMERIC_SKIP = {"seed", "rounds", "wall_ms", "violations", "evaluations"}


def native(name, args, timeout=300, **kw):
    d = {"name": name, "engine": "native", "args": [str(a) for a in args], "timeout": timeout}
    d.update(kw)
    return d


def asan(name, args, timeout=600, **kw):
    d = {"name": name, "engine": "asan", "args": [str(a) for a in args], "timeout": timeout}
    d.update(kw)
    return d


def miri(name, binary, args, seeds, timeout=900, **kw):
    d = {"name": name, "engine": "miri", "bin": binary, "args": [str(a) for a in args], "seeds": seeds,
         "timeout": timeout}
    d.update(kw)
    return d


def strace(name, args, timeout=300, **kw):
    d = {"name": name, "engine": "strace", "args": [str(a) for a in args], "timeout": timeout}
    d.update(kw)
    return d


def valgrind(name, args, timeout=600, **kw):
    d = {"name": name, "engine": "valgrind", "args": [str(a) for a in args], "timeout": timeout}
    d.update(kw)
    return d


def assemble(level, rule, assumptions, exhaustive=False, extra=None):
    """Evidence from the standard summary fields: evaluations (sum), distinct_keys (union, prefixed by
    workload/mode so that keys of different monitors do not collide), samples (a few per step)."""
    def fn(tier, seed, results):
        evaluations = 0
        distinct = set()
        samples = []
        counters = {}
        per_step = []
        for r in results:
            for s in r["summaries"]:
                w = s.get("workload", r["name"])
                pre = "%s/%s/%s" % (w, s.get("mode", ""), s.get("phase", ""))
                evaluations += int(s.get("evaluations", 0))
                for k in s.get("distinct_keys", []):
                    distinct.add(pre + ":" + str(k))
                for x in s.get("samples", [])[:4]:
                    if len(samples) < 24:
                        samples.append({"step": r["name"], "case": x})
                for k, v in s.items():
                    if isinstance(v, bool) or k in NUMERIC_SKIP:
                        continue
                    if isinstance(v, int):
                        if k.startswith("max_"):
                            counters[k] = max(counters.get(k, 0), v)
                        else:
                            counters[k] = counters.get(k, 0) + v
                    elif isinstance(v, dict) and all(isinstance(x, int) for x in v.values()):
                        d = counters.setdefault(k, {})
                        for kk, vv in v.items():
                            d[kk] = d.get(kk, 0) + vv
            if r.get("miri_seeds"):
                per_step.append({"step": r["name"], "miri_seeds_run": r["miri_seed_summaries"], "requested": r["miri_seeds"]})
        cov = {
            "evaluations": evaluations,
            "distinct_nontrivial": len(distinct),
            "rule": rule,
            "samples": samples if samples else ["(no sample produced)"],
            "counters": counters,
            "exhaustive": bool(exhaustive) if not callable(exhaustive) else bool(exhaustive(tier)),
        }
        if per_step:
            cov["miri"] = per_step
        if extra:
            cov.update(extra(tier, results))
        return {"level": level, "coverage": cov, "assumptions": assumptions}
    return fn


def floor_counters(**mins):
    """Coverage floor: the named counters must reach the given minimum."""
    def fn(cov):
        c = cov.get("counters", {})
        for k, v in mins.items():
            got = c.get(k, 0)
            if isinstance(got, dict):
                got = sum(got.values())
            if got < v:
                return "%s=%s below floor %s" % (k, got, v)
        return None
    return fn


PLANS = {}

# ------------------------------------------------------------------------------------------- C01


def c01_steps(tier, seed):
    q = tier == "quick"
    rounds = 25 if q else 200
    st = [
        native("reg-stress-none", ["w_reg", "--mode", "stress", "--phase", "none", "--rounds", rounds, "--round-ms", 100, "--seed", seed], also=[]),
        native("reg-stress-delay", ["w_reg", "--mode", "stress", "--phase", "delay", "--rounds", rounds, "--round-ms", 100, "--seed", seed + 1000]),
        native("reg-stress-raise", ["w_reg", "--mode", "stress", "--phase", "raise", "--rounds", rounds, "--round-ms", 100, "--seed", seed + 2000]),
        native("halflock-native", ["w_halflock", "--rounds", 12 if q else 120, "--seed", seed]),
        miri("halflock-miri", "m_halflock", [], 48 if q else 2048, timeout=240 if q else 3000),
    ]
    if not q:
        st += [
            asan("reg-stress-asan-none", ["w_reg", "--mode", "stress", "--phase", "none", "--rounds", 60, "--round-ms", 100, "--seed", seed + 3000], leaks=False),
            asan("reg-stress-asan-delay", ["w_reg", "--mode", "stress", "--phase", "delay", "--rounds", 60, "--round-ms", 100, "--seed", seed + 4000], leaks=False),
            asan("reg-stress-asan-raise", ["w_reg", "--mode", "stress", "--phase", "raise", "--rounds", 60, "--round-ms", 100, "--seed", seed + 5000], leaks=False),
            asan("halflock-asan", ["w_halflock", "--rounds", 30, "--seed", seed]),
        ]
    return st


PLANS["C01"] = {
    "steps": c01_steps,
    "evidence": assemble(
        "exploration",
        "cases = removal calls (unregister / unregister_signal / drop of a Signals instance) made while victim and mutator "
        "threads are bombarded with real thread-directed signals, each checked by the canary monitor after it returned, plus "
        "half-lock updates under Miri/native readers; distinct non-trivial = distinct (reader-site|writer-site) overlap pairs "
        "and distinct sites at which a delivery nested on the mutating thread, observed by the hook, plus distinct Miri schedule "
        "fingerprints (sequence of versions each reader saw)",
        ["x86-TSO hardware for native runs; weak-memory outcomes only as far as Miri's emulation produces them",
         "canary monitor relies on the harness action being the registered action (it is)"]),
    "floor": floor_counters(unregister_called_with_action_in_flight=1, nested_dispatches=1),
}

# ------------------------------------------------------------------------------------------- C02


def c02_steps(tier, seed):
    q = tier == "quick"
    rounds = 40 if q else 600
    return [
        native("reg-owner-none", ["w_reg", "--mode", "owner", "--phase", "none", "--rounds", rounds, "--seed", seed]),
        native("reg-owner-delay", ["w_reg", "--mode", "owner", "--phase", "delay", "--rounds", rounds, "--seed", seed + 100]),
        native("reg-owner-raise", ["w_reg", "--mode", "owner", "--phase", "raise", "--rounds", rounds, "--seed", seed + 200]),
    ]


PLANS["C02"] = {
    "steps": c02_steps,
    "evidence": assemble(
        "exploration",
        "cases = dispatch brackets (DISPATCH_ENTER..EXIT of one delivery) whose list of actions run is compared with the "
        "registry states that can have been current during the bracket (single owner per signal, so the state sequence is "
        "known at the client boundary); non-trivial = a bracket overlapping an owner operation (>= 2 candidate states); "
        "distinct = distinct (signal, #candidates, which candidate was run, run-list length, nested?, window size) tuples",
        ["exactness of 'some instant' is limited to single-owner signals; signals share one snapshot, so owners contend"]),
    "floor": floor_counters(c02_nontrivial_brackets=50, c02_nested_brackets=1),
}
