"""Per-property plans: which steps run in which tier, and how evidence is assembled."""

NUMERIC_SKIP = {"seed", "rounds", "wall_ms", "violations", "evaluations"}


def native(name, args, timeout=300, **kw):
    d = {"name": name, "engine": "native", "args": [str(a) for a in args], "timeout": timeout}
    d.update(kw)
    return d


def asan(name, args, timeout=600, **kw):
    d = {"name": name, "engine": "asan", "args": [str(a) for a in args], "timeout": timeout}
    d.update(kw)
    return d


def miri(name, binary, args, seeds, timeout=900, **kw):
    d = {"name": name, "engine": "miri", "bin": binary, "args": [str(a) for a in args], "seeds": seeds,
         "timeout": timeout}
    d.update(kw)
    return d


def strace(name, args, timeout=300, **kw):
    d = {"name": name, "engine": "strace", "args": [str(a) for a in args], "timeout": timeout}
    d.update(kw)
    return d


def valgrind(name, args, timeout=600, **kw):
    d = {"name": name, "engine": "valgrind", "args": [str(a) for a in args], "timeout": timeout}
    d.update(kw)
    return d


def assemble(level, rule, assumptions, exhaustive=False, extra=None):
    """Evidence from the standard summary fields: evaluations (sum), distinct_keys (union, prefixed by
    workload/mode so that keys of different monitors do not collide), samples (a few per step)."""
    def fn(tier, seed, results):
        evaluations = 0
        distinct = set()
        samples = []
        counters = {}
        per_step = []
        for r in results:
            for s in r["summaries"]:
                w = s.get("workload", r["name"])
                pre = "%s/%s/%s" % (w, s.get("mode", ""), s.get("phase", ""))
                evaluations += int(s.get("evaluations", 0))
                for k in s.get("distinct_keys", []):
                    distinct.add(pre + ":" + str(k))
                for x in s.get("samples", [])[:4]:
                    if len(samples) < 24:
                        samples.append({"step": r["name"], "case": x})
                for k, v in s.items():
                    if isinstance(v, bool) or k in NUMERIC_SKIP:
                        continue
                    if isinstance(v, int):
                        if k.startswith("max_"):
                            counters[k] = max(counters.get(k, 0), v)
                        else:
                            counters[k] = counters.get(k, 0) + v
                    elif isinstance(v, dict) and all(isinstance(x, int) for x in v.values()):
                        d = counters.setdefault(k, {})
                        for kk, vv in v.items():
                            d[kk] = d.get(kk, 0) + vv
            if r.get("miri_seeds"):
                per_step.append({"step": r["name"], "miri_seeds_run": r["miri_seed_summaries"], "requested": r["miri_seeds"]})
        cov = {
            "evaluations": evaluations,
            "distinct_nontrivial": len(distinct),
            "rule": rule,
            "samples": samples if samples else ["(no sample produced)"],
            "counters": counters,
            "exhaustive": bool(exhaustive) if not callable(exhaustive) else bool(exhaustive(tier)),
        }
        if per_step:
            cov["miri"] = per_step
        if extra:
            cov.update(extra(tier, results))
        return {"level": level, "coverage": cov, "assumptions": assumptions}
    return fn


def floor_counters(**mins):
    """Coverage floor: the named counters must reach the given minimum."""
    def fn(cov):
        c = cov.get("counters", {})
        for k, v in mins.items():
            got = c.get(k, 0)
            if isinstance(got, dict):
                got = sum(got.values())
            if got < v:
                return "%s=%s below floor %s" % (k, got, v)
        return None
    return fn


PLANS = {}

# ------------------------------------------------------------------------------------------- C01


def c01_steps(tier, seed):
    q = tier == "quick"
    rounds = 25 if q else 200
    st = [
        native("reg-stress-none", ["w_reg", "--mode", "stress", "--phase", "none", "--rounds", rounds, "--round-ms", 100, "--seed", seed], also=[]),
        native("reg-stress-delay", ["w_reg", "--mode", "stress", "--phase", "delay", "--rounds", rounds, "--round-ms", 100, "--seed", seed + 1000]),
        native("reg-stress-raise", ["w_reg", "--mode", "stress", "--phase", "raise", "--rounds", rounds, "--round-ms", 100, "--seed", seed + 2000]),
        native("halflock-native", ["w_halflock", "--rounds", 12 if q else 120, "--seed", seed]),
        miri("halflock-miri", "m_halflock", [], 48 if q else 2048, timeout=240 if q else 3000),
        miri("registry-miri", "m_registry", ["--shape", seed], 16 if q else 512, timeout=400 if q else 3600),
        native("gate-held-reader", ["w_live", "--mode", "gate", "--trials", 300 if q else 5000, "--seed", seed + 17]),
        native("reg-owner-istep", ["w_reg", "--mode", "owner", "--phase", "istep", "--killers", 0, "--rounds", 6 if q else 120, "--ops", 80, "--seed", seed + 23], timeout=300 if q else 2400),
        # single owners with slow actions (a delivery stays in the handler for tens of milliseconds across removals)
        native("reg-owner-slow-actions", ["w_reg", "--mode", "owner", "--phase", "none", "--rounds", 15 if q else 200, "--seed", seed + 24], timeout=300 if q else 2400),
        native("owner-drop-scripts-and-concurrent-add", ["w_instance", "--scripts", 100 if q else 2000, "--concurrent", 40 if q else 600, "--seed", seed + 29], timeout=600 if q else 2400),
    ]
    if not q:
        st += [miri("registry-miri-%d" % sh, "m_registry", ["--shape", seed + sh], 128, timeout=3600) for sh in range(1, 5)]
        st += [
            asan("reg-stress-asan-none", ["w_reg", "--mode", "stress", "--phase", "none", "--rounds", 60, "--round-ms", 100, "--seed", seed + 3000], leaks=False),
            asan("reg-stress-asan-delay", ["w_reg", "--mode", "stress", "--phase", "delay", "--rounds", 60, "--round-ms", 100, "--seed", seed + 4000], leaks=False),
            asan("reg-stress-asan-raise", ["w_reg", "--mode", "stress", "--phase", "raise", "--rounds", 60, "--round-ms", 100, "--seed", seed + 5000], leaks=False),
            asan("halflock-asan", ["w_halflock", "--rounds", 30, "--seed", seed]),
        ]
    return st


PLANS["C01"] = {
    "steps": c01_steps,
    "evidence": assemble(
        "exploration",
        "cases = removal calls (unregister / unregister_signal / drop of a Signals instance) made while victim and mutator "
        "threads are bombarded with real thread-directed signals, each checked by the canary monitor after it returned, plus "
        "half-lock updates under Miri/native readers; distinct non-trivial = distinct (reader-site|writer-site) overlap pairs "
        "and distinct sites at which a delivery nested on the mutating thread, observed by the hook, plus distinct Miri schedule "
        "fingerprints (sequence of versions each reader saw); instruction-step phase: the owner single-steps itself (x86 trap flag) "
        "from a writer-side hook site of its register/unregister/unregister_signal call and a real delivery of its signal is nested "
        "at the k-th instruction (istep_fired deliveries at istep_distinct_points distinct instruction addresses); owner drop: two "
        "threads add the same signal to one iterator instance, the instance is dropped, none of its actions may run afterwards",
        ["x86-TSO hardware for native runs; weak-memory outcomes only as far as Miri's emulation produces them",
         "canary monitor relies on the harness action being the registered action (it is)"]),
    "floor": floor_counters(unregister_called_with_action_in_flight=1, nested_dispatches=1),
}

# ------------------------------------------------------------------------------------------- C02


def c02_steps(tier, seed):
    q = tier == "quick"
    rounds = 40 if q else 600
    return [
        native("reg-owner-none", ["w_reg", "--mode", "owner", "--phase", "none", "--rounds", rounds, "--seed", seed]),
        native("reg-owner-delay", ["w_reg", "--mode", "owner", "--phase", "delay", "--rounds", rounds, "--seed", seed + 100]),
        native("reg-owner-raise", ["w_reg", "--mode", "owner", "--phase", "raise", "--rounds", rounds, "--seed", seed + 200]),
        native("reg-shared-delay", ["w_reg", "--mode", "sharedlog", "--phase", "delay", "--rounds", rounds, "--seed", seed + 300]),
        native("reg-shared-raise", ["w_reg", "--mode", "sharedlog", "--phase", "raise", "--rounds", rounds, "--seed", seed + 400]),
        miri("registry-miri", "m_registry", ["--shape", seed + 3], 16 if q else 384, timeout=400 if q else 3600),
        native("reg-owner-istep", ["w_reg", "--mode", "owner", "--phase", "istep", "--killers", 0, "--rounds", 8 if q else 160, "--ops", 80, "--seed", seed + 500], timeout=300 if q else 2400),
        # the snapshot a delivery walks stays intact until the delivery has left it: deliveries held inside their read
        # section while a writer registers / removes / registers a never-seen signal (two publications); a writer that
        # returns (and has freed the snapshot) while they are inside leaves them running whatever the memory holds next
        native("snapshot-kept-for-held-deliveries", ["w_live", "--mode", "gate", "--trials", 200 if q else 3000, "--seed", seed + 600], also=["C01"], timeout=600),
    ]


PLANS["C02"] = {
    "steps": c02_steps,
    "evidence": assemble(
        "exploration",
        "cases = dispatch brackets (DISPATCH_ENTER..EXIT of one delivery) whose list of actions run is compared with the "
        "registry states that can have been current during the bracket (single owner per signal, so the state sequence is "
        "known at the client boundary); non-trivial = a bracket overlapping an owner operation (>= 2 candidate states); "
        "distinct = distinct (signal, #candidates, which candidate was run, run-list length, nested?, window size) tuples; "
        "second mode: 3 mutators share 2 signals (every action has one owner thread): per bracket nothing twice, nothing of another "
        "signal, must-run (registration returned before ENTER, removal not called before EXIT), must-not-run (removal returned before "
        "ENTER / registration called after EXIT) and real-time registration order of the actions that ran; "
        "instruction-step phase: the delivery is nested on the owner at the k-th instruction after a writer-side hook site of its own call; "
        "held-delivery step: 1-3 deliveries are parked inside the read section (before their first action / right after taking the "
        "snapshot) while a writer registers, removes or registers a never-seen signal; the writer must not return while they are inside",
        ["exactness of 'some instant' is limited to single-owner signals; shared signals get the must-run / must-not-run / order rules"]),
    "floor": floor_counters(c02_nontrivial_brackets=50, c02_nested_brackets=1),
}

# ------------------------------------------------------------------------------------------- C06 / C07 / C08


def chan(name, mode, n, seed, **kw):
    return native(name, ["w_channel", "--mode", mode, "--histories", n, "--seed", seed], **kw)


def c06_steps(tier, seed):
    q = tier == "quick"
    st = [
        chan("chan-random", "random", 2500 if q else 150000, seed),
        chan("chan-nest", "nest", 6000 if q else 100000, seed),
        chan("chan-park", "park", 30 if q else 1500, seed),
        chan("chan-signal", "signal", 1500 if q else 100000, seed + 7),
        chan("chan-starve", "starve", 2000 if q else 20000, seed + 9),
        native("chan-istep", ["w_step", "--mode", "chan", "--shards", 16, "--stride", 6 if q else 1, "--seed", seed], timeout=600),
    ]
    st.append(miri("chan-miri-q", "m_channel", ["--shape", 3 * seed + 1], 16 if q else 256, timeout=400 if q else 3000))
    if not q:
        st += [miri("chan-miri-%d" % sh, "m_channel", ["--shape", sh + 4 * seed], 96, timeout=1500) for sh in range(0, 8)]
    return st


CHAN_RULE = ("cases = short channel histories on a fresh Channel (1-4 producers x 3-10 sends, 1-3 consumers, optional nested "
             "operation batch injected at a CH_* failpoint, optional real-signal sender whose action sends on the same channel, "
             "threads parked inside send/recv holding indices, one operation made to lose its compare-exchange 1..12 times in a row, "
             "a nested batch at the k-th instruction of every window between two hook arrivals of a send / recv (single-stepped)), "
             "every history closed by a final drain, a capacity probe (five sends into the empty channel must come back) and the channel's drop and "
             "checked offline against the bad patterns (invented / duplicate / FIFO order / empty-although-nonempty / "
             "unjustified discard / lost / drop count / cell section overlap); non-trivial = history with overlapping operations, "
             "nested operations or a discarded send; distinct = distinct fingerprints of (thread, op, empty?) sequences in call order")

PLANS["C06"] = {
    "steps": c06_steps,
    "evidence": assemble("exploration", CHAN_RULE,
                         ["real-time order is observed on x86-TSO; definitely-before relations only (CALL/RET stamps from one SeqCst counter)"]),
    "floor": floor_counters(discarded_sends=50, overlapping_op_pairs=100, nested_ops=50),
}


def c07_steps(tier, seed):
    q = tier == "quick"
    st = [
        miri("chan-miri-a", "m_channel", ["--shape", 2 * seed], 32 if q else 768, timeout=400 if q else 3000),
        miri("chan-miri-b", "m_channel", ["--shape", 2 * seed + 1], 32 if q else 768, timeout=400 if q else 3000),
        miri("raw-slot-miri", "m_iter", ["--shape", seed], 8 if q else 256, timeout=600 if q else 3600),
        miri("chan-aba-full", "m_aba", ["--shape", 0], 3 if q else 24, timeout=300 if q else 900),
        miri("chan-aba-empty", "m_aba", ["--shape", 1], 3 if q else 24, timeout=300 if q else 900),
        chan("chan-random", "random", 1500 if q else 100000, seed + 1),
        chan("chan-signal", "signal", 1000 if q else 50000, seed + 2),
        chan("chan-nest", "nest", 3000 if q else 100000, seed + 3),
    ]
    if not q:
        st += [miri("chan-miri-%d" % sh, "m_channel", ["--shape", sh + 16 * seed], 256, timeout=3000) for sh in range(2, 14)]
        st += [
            asan("chan-asan-random", ["w_channel", "--mode", "random", "--histories", 20000, "--seed", seed + 4]),
            asan("chan-asan-signal", ["w_channel", "--mode", "signal", "--histories", 10000, "--seed", seed + 5]),
        ]
    return st


PLANS["C07"] = {
    "steps": c07_steps,
    "evidence": assemble(
        "exploration",
        "Miri: one channel history per seed (2-3 producers, 1-2 consumers, boxed payloads, one nested batch at a failpoint), no "
        "global stamps so that the monitor adds no happens-before; Miri's vector-clock race detector judges the UnsafeCell accesses "
        "under the declared orderings, its leak/double-free checks the payloads; thread-local assertions check drops==1. Native: "
        + CHAN_RULE,
        ["Miri samples interleavings and reads-from choices (its weak-memory emulation is incomplete); seeds listed in coverage.miri"]),
    "floor": floor_counters(cell_sections_checked=1000),
}


def c08_steps(tier, seed):
    q = tier == "quick"
    st = [
        chan("chan-nest", "nest", 6000 if q else 200000, seed, ),
        chan("chan-park", "park", 60 if q else 3000, seed),
        chan("chan-signal", "signal", 2500 if q else 100000, seed + 11),
        chan("chan-random", "random", 1000 if q else 50000, seed + 12),
        chan("chan-starve", "starve", 1000 if q else 20000, seed + 13),
        native("chan-istep", ["w_step", "--mode", "chan", "--shards", 16, "--stride", 6 if q else 1, "--seed", seed + 1], timeout=600),
        # ordering downgrades (and a weak compare-exchange that fails spuriously) are invisible natively on x86
        miri("chan-miri-q", "m_channel", ["--shape", 5 * seed + 2], 16 if q else 256, timeout=400 if q else 3000),
    ]
    if not q:
        st += [miri("chan-miri-%d" % sh, "m_channel", ["--shape", sh + 8 * seed], 128, timeout=2000) for sh in range(0, 8)]
    return st


PLANS["C08"] = {
    "steps": c08_steps,
    "evidence": assemble(
        "fault_enumeration",
        "injection points = (channel failpoint site x occurrence 1..4 x nested batch kind {send, recv, 5 sends, 5 recvs, send+recv, "
        "recv+send, 6 sends} x prefill 0..5 x shape) run as a nested operation on the same thread (panics caught, CAS-loop "
        "iterations counted against loop executions) + 1..5 threads parked inside send/recv each holding an index while a free "
        "thread must finish every loop in one iteration + real signals whose action sends, nested at arbitrary instructions + "
        "a nested batch at the k-th instruction of every window between two hook arrivals of send / recv (the thread single-steps itself, all k) + "
        "1..12 consecutive lost compare-exchanges forced on one loop; "
        "distinct = distinct history fingerprints / (k, where parked, prefill) tuples",
        ["spurious weak-CAS failures do not exist on x86: they are covered only by the Miri runs of the thorough tier",
         "instruction boundaries: every instruction of send / recv between the hook arrivals in the thorough tier (every 6th in quick), by single-stepping"],
        exhaustive=lambda tier: False),
    "floor": floor_counters(nested_batches_run=100, park_checks=100),
}

# ------------------------------------------------------------------------------------------- C09 / C10

ITER_RULE = ("cases = stable points: after each burst of sigqueue'd signals (unique seq; aimed at victim threads and at the consumer "
             "itself; optional delays at IT_A_STORED/PIPE_WAKE/EX_* and a real delivery nested on the consumer at IT_FLUSH_*/IT_SCAN/"
             "IT_PS_*/IT_HAS_BEFORE_READ/EX_LOAD; add_signal from another thread mid-run) the harness waits until nothing is pending, "
             "no dispatch bracket is open, the self-pipe is empty (FIONREAD) and the consumer is blocked in read/poll according to "
             "/proc, then checks the log; instances cover {SignalOnly, WithRawSiginfo, WithOrigin} x {wait, forever, forever re-created after every item, wait + a second pending() batch drained by a helper thread, poll_signal}; "
             "distinct = distinct (instance kind, Director phase, burst class) and (instance kind, site at which a delivery nested); "
             "instruction-step sweep: the consumer single-steps itself through the scan of the signal's slot (every window between two hook "
             "arrivals, all three exfiltrators, slot empty / set / two records queued) and at the k-th instruction, for every k, a real delivery "
             "of that signal is nested on it (C09, C10) or a helper thread drains a second Pending batch of the same instance completely (C10); "
             "afterwards every delivery whose store began is reported by a later yield of that scan or, with a wake-up byte outstanding, of the next one")


def iter_steps(tier, seed, extra=0):
    q = tier == "quick"
    n = 2 if q else 12
    step = [native("scan-istep", ["w_step", "--mode", "scan", "--shards", 16, "--seed", seed + extra], timeout=600)]
    if extra:
        step.append(native("dual-istep", ["w_step", "--mode", "dual", "--shards", 16, "--seed", seed + extra], timeout=600))
        # faithful records under the declared orderings: the hand-over of a record from handler to consumer under Miri
        step.append(miri("raw-slot-miri", "m_iter", ["--shape", seed], 8 if q else 256, timeout=600 if q else 3600))
        step.append(miri("chan-miri-q", "m_channel", ["--shape", 7 * seed + 3], 8 if q else 128, timeout=400 if q else 3000))
    else:
        step.append(native("backlog", ["w_step", "--mode", "backlog", "--seed", seed], timeout=300))
    return step + [native("iter-%d" % i, ["w_iter", "--instances", 15, "--rounds", 30 if q else 300, "--seed", seed * 100 + i + extra, "--focus", "C10" if extra else "C09"],
                   timeout=300 if q else 1800) for i in range(n)] + \
           ([] if q else [asan("iter-asan", ["w_iter", "--instances", 15, "--rounds", 60, "--seed", seed + 5 + extra], leaks=False, timeout=1800)])


PLANS["C09"] = {
    "steps": lambda tier, seed: iter_steps(tier, seed),
    "evidence": assemble("exploration", ITER_RULE + "; C09 oracle: at a stable point every watched signal whose last delivery began "
                         "after its add_signal returned has a yield stamped after that delivery's DISPATCH_ENTER",
                         ["'eventually obtains' is restated as 'never in the stable lost state at a quiescent point'",
                          "the stable state is decided from /proc thread state + FIONREAD + SigPnd, not from elapsed time"]),
    "floor": floor_counters(stable_points_checked=100, deliveries_nested_on_consumer=20, add_signal_midrun=3, step_trials_fired=1000),
}

PLANS["C10"] = {
    "steps": lambda tier, seed: iter_steps(tier, seed, extra=50),
    "evidence": assemble("exploration", ITER_RULE + "; C10 oracle (every log event): yields(s) <= deliveries of s begun since "
                         "add_signal(s) was called, s is watched, every raw record equals byte-for-byte the copy an independent witness "
                         "action took of the delivery with the same seq, no record twice, records of one signal in delivery order",
                         ["deliveries are counted from DISPATCH_ENTER of every bracket of that signal, an upper bound that is exact for "
                          "signals watched since construction"]),
    "floor": floor_counters(records_compared_bytewise=100, yields=500, step_trials_fired=2000, helper_scans=500),
}

# ------------------------------------------------------------------------------------------- C11


def c11_steps(tier, seed):
    q = tier == "quick"
    return [{"name": "async-std-stream", "engine": "vha", "args": ["--seed", str(seed), "--trials", str(1500 if q else 60000)], "timeout": 600 if q else 3000}] + [native("close-sweep-%d" % i, ["w_close", "--seed", seed * 10 + i, "--reps", 1 if q else 4, "--random", 120 if q else 1500],
                   timeout=300 if q else 2400) for i in range(1 if q else 3)] + \
        [native("close-istep", ["w_close", "--mode", "istep", "--shards", 16, "--stride", 3 if q else 1, "--seed", seed], timeout=900)]


PLANS["C11"] = {
    "steps": c11_steps,
    "evidence": assemble(
        "fault_enumeration",
        "injection points = front-end {wait, forever, poll_signal} x consumer failpoint {IT_PS_LOOP, IT_PS_ITER_EMPTY, "
        "IT_PP_CLOSED_CHECKED, after-callback, IT_HAS_BEFORE_READ, IT_FLUSH_BEGIN/END, IT_SCAN, EX_LOAD} x occurrence 1..3 x "
        "{no delivery, one delivery}: the consumer is paused there, close() is called on a handle clone from another thread, the "
        "consumer is released; plus the closer paused between setting the flag and sending the wake; plus random-timing trials with "
        "delays at all those sites and concurrent deliveries; plus the instruction-step sweep: the consumer single-steps itself from "
        "each of those failpoints and at the k-th instruction (every k up to the next hook arrival; every 3rd in quick) stands still while "
        "a closer thread runs close() to completion. A trial is non-trivial when the pause site was actually reached; "
        "distinct = distinct (front-end, paused party, site, occurrence, delivery) tuples",
        ["'returns after a bounded number of steps' is decided by the stable stuck state (blocked per /proc on an empty self-pipe "
         "after close() returned), never by elapsed time",
         "the real signal-hook-async-std stream is run (next() racing close(), delays at the consumer's failpoints, stable parked state = stranded); "
         "tokio's adapter is not (same poll_signal, no runtime in the offline cache to drive it)"]),
    "floor": floor_counters(trials_consumer_paused=40, trials_closer_paused=6, poll_pending_results_checked=20, async_std_trials_ended=100),
}

# ------------------------------------------------------------------------------------------- C12


def c12_steps(tier, seed):
    q = tier == "quick"
    st = [native("instance-scripts", ["w_instance", "--seed", seed, "--scripts", 1500 if q else 20000], timeout=300 if q else 1800),
          native("instance-all-numbers", ["w_instance", "--seed", seed + 1, "--scripts", 600 if q else 10000, "--all-numbers"], timeout=300 if q else 1800)]
    if not q:
        st.append(valgrind("instance-valgrind", ["w_instance", "--seed", seed + 2, "--scripts", 120], timeout=1800))
    return st


PLANS["C12"] = {
    "steps": c12_steps,
    "evidence": assemble(
        "exploration",
        "cases = generated scripts (6-12 steps over new(list) / add_signal(x) directly or through a handle clone / clone handle / "
        "drop handle / drop instance / deliver / pending) run in a forked child with panics caught, for each of SignalOnly, "
        "WithRawSiginfo, WithOrigin; x rotates through rejected numbers (forbidden, negative, >= 128, OS-rejected 0/32/33/65..127; the "
        "all-numbers step rotates through every rejected number in [-2,130] and extreme integers). After every step the child "
        "compares with a model: outcome class of the call, number of instance actions run by a delivery (hook count), wake bytes "
        "per delivery (FIONREAD), set yielded by pending(), a foreign flag registration still working; at the end: fd table back to "
        "baseline and no instance action runs. Child death (abort) is a violation. distinct = (exfiltrator, rejected number, class)",
        ["expected class of a number comes from the published FORBIDDEN list, the documented panics and this kernel/glibc (0, 32, 33, >64 rejected)"]),
    "floor": floor_counters(scripts_with_err_reject=30, scripts_with_panic_reject=30),
}

# ------------------------------------------------------------------------------------------- C13 .. C17 (forked probes)


def c13_steps(tier, seed):
    q = tier == "quick"
    st = [native("pipe-scenarios", ["w_pipe", "--seed", seed, "--cycles", 10000 if q else 100000], timeout=400 if q else 1800)]
    st.append(strace("pipe-strace", ["w_strace", "--what", "pipe"], oracle="c13"))
    # the iterator's own write end (backend.rs): never written to once closed, also for a delivery during the owner's drop
    st.append(native("iterator-write-end", ["w_instance", "--seed", seed + 5, "--scripts", 300 if q else 5000, "--concurrent", 60 if q else 600], also=["C12"], timeout=600))
    # the iterator's wake-up on a completely full self-pipe, delivered on the consumer's own thread
    st.append(native("backlog-on-own-thread", ["w_step", "--mode", "backlog", "--seed", seed + 6], timeout=300))
    return st


PLANS["C13"] = {
    "steps": c13_steps,
    "evidence": assemble(
        "exploration",
        "cases = (descriptor kind in {pipe via register_raw, UnixStream, UnixDatagram, blocking pipe, non-blocking pipe} x fill in "
        "{empty, half, full to EAGAIN}) scenarios, each in a forked child: bursts of 1/7/1/1000/3 synchronous deliveries with the "
        "wake attempts per delivery counted at the PIPE_WAKE failpoint, bytes read vs deliveries after each drain, descriptor state "
        "(fcntl) before/after unregister and after re-use of the number, 5 rejected registrations (forbidden, 0, 65, -1) and 2 "
        "invalid descriptors, plus register/unregister cycles with descriptor-number reuse; a child that stays blocked in "
        "write/sendto (stable per /proc) is the 'blocks on a full descriptor' verdict; plus one run under strace -f whose trace is "
        "checked per delivery bracket (exactly one 1-byte write/sendto on the fd) and per fd (closed once, never written after)",
        ["socket kinds are handed over in blocking mode on purpose; descriptor-number reuse cannot be confused because the child is single-threaded"]),
    "floor": floor_counters(register_unregister_cycles=100, strace_brackets=5),
}


def c14_steps(tier, seed):
    q = tier == "quick"
    st = [native("forbid-grid", ["w_forbid", "--seed", seed, "--full"], timeout=600),
          strace("forbid-pipe-strace", ["w_forbid", "--seed", seed, "--full", "--only-pipe"], oracle="c14", timeout=600)]
    if not q:
        st.append(valgrind("forbid-valgrind", ["w_forbid", "--seed", seed], timeout=3000))
    return st


PLANS["C14"] = {
    "steps": c14_steps,
    "evidence": assemble(
        "exploration",
        "complete grid, one forked child per case: 16 registration entry points (registry x4 + re-export, flag x4, pipe x2, "
        "Signals::new, SignalsInfo<WithRawSiginfo|WithOrigin>::new, Handle::add_signal, SignalDelivery::with_pipe) x 140 numbers "
        "([-2,130] + {i32::MIN, i32::MIN+1, -129, 255, 256, 65536, i32::MAX}) x {fresh process, after 5 other signals registered, after the same number went through an unchecked entry point}; "
        "oracle: outcome class {Ok, Err, catchable panic, process death} against the published FORBIDDEN list / documented panics / "
        "this kernel; after a non-Ok outcome: all 64 dispositions and the fd table unchanged, a witness action still runs once per "
        "delivery, captured Arcs have strong count 1, handed-over descriptors are closed, a valid registration through the same "
        "entry point works; distinct = (entry point, number, outcome class)",
        ["expected classes are those of this kernel/glibc (1..64 minus KILL, STOP, 32, 33 accepted)"],
        exhaustive=True),
    "floor": floor_counters(outcomes_panic=100, outcomes_err=1000, outcomes_ok=500),
}


def c15_steps(tier, seed):
    q = tier == "quick"
    return [native("flag-scripts", ["w_flag", "--seed", seed, "--scripts", 4000 if q else 60000], timeout=600 if q else 3000)]


PLANS["C15"] = {
    "steps": c15_steps,
    "evidence": assemble(
        "exploration",
        "cases = sequential scripts in forked children: the complete grid of the documented 'shutdown first, arming flag second' "
        "recipe for every history over {deliver, disarm} up to length 6 in both registration orders (252 scripts) + random scripts "
        "over {set, clear, deliver} x status 0..255 x signals TERM/QUIT/INT/HUP/USR1/USR2/ALRM/RTMIN+2 x "
        "{conditional_shutdown, conditional_default on ignore-kind and terminate-kind signals}; oracle = the script's own model "
        "(at which delivery the process must end), waitpid status, STEP/SURVIVED markers, an atexit marker and an action "
        "registered after the shutdown that must not run in the terminating delivery; flags register/register_usize are reset to "
        "garbage by the application before each delivery; distinct = (kind, signal, order, arming, # deliveries until the end)",
        ["single-threaded children: the condition's value at each delivery is known exactly"]),
    "floor": floor_counters(scripts_terminated=100, scripts_survived=50),
}


def c16_steps(tier, seed):
    q = tier == "quick"
    return [native("default-grid", ["w_default", "--seed", seed, "--step-stride", 4 if q else 1], timeout=900)]


PLANS["C16"] = {
    "steps": c16_steps,
    "evidence": assemble(
        "exploration",
        "complete grid of paired forked probes: n in 1..64 + {0, -1, 65, 100, 128, 1000} x context {plain call, from inside the "
        "signal's own registered action, with the signal blocked}; native probe = all dispositions default, everything unblocked, "
        "raise(n); emulated probe = emulate_default_handler(n); both with RLIMIT_CORE=0, in a process group of their own whose "
        "parent lives in another group (not orphaned), waited for with WUNTRACED; classes {terminated by that signal, stopped, "
        "continues, returned Err}; names against glibc's sigabbrev_np plus libc's alias constants",
        ["the oracle is this kernel and this glibc"],
        exhaustive=True),
}


def c17_steps(tier, seed):
    return [native("origin", ["w_origin", "--seed", seed, "--full"], timeout=900),
            native("origin-via-iterator-under-fire", ["w_iter", "--instances", 15, "--rounds", 20, "--seed", seed, "--only", "WithOrigin"], timeout=600)]


PLANS["C17"] = {
    "steps": c17_steps,
    "evidence": assemble(
        "exploration",
        "synthetic complete grid: hand-built siginfo records si_signo 1..64 x si_code in [-70,200] + {0x80}, union poisoned, checked "
        "against a table written from signal(7)/sigaction(2); real probes in forked children through SignalsInfo<WithOrigin> and "
        "Origin::extract on the raw record of the same delivery: kill, raise, tgkill, sigqueue, kill from a forked child for every "
        "catchable signal, child exit / kill / stop / continue, setitimer REAL/VIRTUAL/PROF, timer_create, SIGPIPE; ground truth = "
        "the mechanism used, getpid/getuid/child pid and libc's si_pid()/si_uid() accessors on the same record",
        ["mq_notify is not exercised (no mqueue needed for the claim: MesgQ is covered by the synthetic grid only)",
         "the synthetic grid is exhaustive; the real probes are one run per (mechanism, signal)"],
        exhaustive=False),
    "floor": floor_counters(synthetic_records=17000, real_probes=200),
}

# ------------------------------------------------------------------------------------------- C04 / C05


def c04_steps(tier, seed):
    q = tier == "quick"
    return [native("chain-trials", ["w_chain", "--seed", seed, "--reps", 3 if q else 15], timeout=600 if q else 3000),
            native("chain-istep", ["w_chain", "--mode", "istep", "--shards", 16, "--stride", 5 if q else 1, "--seed", seed], timeout=900)]


PLANS["C04"] = {
    "steps": c04_steps,
    "evidence": assemble(
        "fault_enumeration",
        "one forked child per trial: previous disposition {siginfo handler, plain handler, default, ignore} x signal {USR1, USR2, HUP, "
        "TERM, URG, CHLD, RTMIN+1/+2/+4/+6} x arrival {a real delivery raised on the registering thread at REG_CLONED / "
        "REG_BEFORE_FALLBACK / REG_AFTER_FALLBACK / REG_AFTER_SIGACTION / REG_BEFORE_PUBLISH / REG_DONE and at every HL_W_*/HL_B_* "
        "failpoint of both stores (occurrence 1 = fallback, 2 = publication); bombardment of 3 victim threads with queued signals "
        "during the first registration, optionally with the window after sigaction() widened; another thread doing the first "
        "registration of another signal with its own handler}; later phases: another signal taken over, all actions unregistered, "
        "50 further registrations. Every send carries a unique seq; oracle: each delivered seq is seen by the previous handler exactly "
        "once (directly from the kernel before the switch, through the library after), before any action, with the same info pointer "
        "and a context; every dispatch bracket of the signal contains exactly one previous-handler call, first (none for "
        "default/ignore); process death = violation. A third of the site list per (disposition, signal) in quick (sharded by seed), "
        "all of it in thorough. Stalled-dispatch sweep (both tiers, complete): one delivery inside the sigaction-to-publication window "
        "is parked at every failpoint its dispatch passes (sequence from a calibration run) while the registration is let go and a "
        "third thread first-registers another signal; the previous handler must have run exactly once. Instruction-step sweep: the registering thread single-steps itself from the call of the first "
        "registration and from every hook arrival inside it, and the delivery is raised at the k-th instruction after that point, for "
        "every k up to the next hook arrival (every 5th in quick), with and without another signal taken over first. "
        "distinct = (disposition, std/rt, site#occurrence, bombard, slot-or-fallback path)",
        ["standard signals coalesce, so exact per-seq accounting under bombardment is limited to real-time signals",
         "a one-argument handler cannot tell how many arguments it was called with on this ABI; only its call count is checked",
         "Miri cannot run this (int -> fn pointer transmute, real sigaction)"]),
    "floor": floor_counters(deliveries_handled_through_the_race_fallback=50, nested_raises_fired=50),
}


def c05_steps(tier, seed):
    q = tier == "quick"
    return [native("model-histories", ["w_model", "--seed", seed, "--procs", 16, "--ops", 20000 if q else 300000], timeout=600 if q else 3000),
            native("model-concurrent-owners", ["w_model", "--seed", seed + 3, "--procs", 8, "--threads", 3, "--ops", 15000 if q else 200000], timeout=600 if q else 3000),
            native("fresh-and-race-remove", ["w_model", "--seed", seed + 4, "--procs", 6, "--race-remove", "--ops", 1500 if q else 30000], timeout=600 if q else 3000),
            native("restart-under-fire", ["w_reg", "--mode", "stress", "--phase", "none", "--rounds", 10 if q else 100, "--round-ms", 60, "--seed", seed + 9])]


PLANS["C05"] = {
    "steps": c05_steps,
    "evidence": assemble(
        "exploration",
        "cases = operations of random sequential histories over {register, register_sigaction, unregister(live oldest/newest/middle), "
        "unregister(stale id), unregister(id of another signal), unregister_signal, deliver} on all catchable non-forbidden numbers "
        "1..64 except 32/33 (4 hot signals 7/8 of the time), one forked process per history; after every operation the touched "
        "signal is delivered and the ordered list of actions that ran is compared with the model, every 64 operations all "
        "taken-over signals are delivered and their disposition (dispatcher, SA_RESTART|SA_SIGINFO) is read back from the kernel; "
        "ids are checked for uniqueness over the whole history; finally a thread blocked in read(2) (confirmed via /proc) receives a "
        "handled signal and the read must complete with the byte written afterwards. distinct = histories (different seeds)",
        ["sequential histories (the property is about histories); concurrency of the registry is C01/C02/C18"]),
    "floor": floor_counters(model_unreg_stale=100, model_unreg_other=100, model_clear=100),
}

# ------------------------------------------------------------------------------------------- C03 / C18


def c03_steps(tier, seed):
    q = tier == "quick"
    st = [
        native("freeze-sweep", ["w_freeze", "--seed", seed], timeout=900),
        strace("actions-strace", ["w_strace", "--what", "actions", "--rounds", 5 if q else 200], oracle="c03", timeout=600),
        native("alloc-watch-registry", ["w_reg", "--mode", "stress", "--phase", "raise", "--rounds", 12 if q else 150, "--round-ms", 80, "--seed", seed + 31]),
        native("alloc-watch-iterators", ["w_iter", "--instances", 15, "--rounds", 15 if q else 200, "--seed", seed + 32], timeout=900),
        native("channel-nested-in-handler", ["w_channel", "--mode", "signal", "--histories", 800 if q else 40000, "--seed", seed + 33, "--heap", 0], also=["C08"]),
        native("wake-on-full-descriptors", ["w_pipe", "--seed", seed + 34, "--cycles", 200], also=["C13"]),
        native("backlog-on-own-thread", ["w_step", "--mode", "backlog", "--seed", seed + 36], timeout=300),
        # the dispatcher must not call back a handler that the application installed on top of it (unbounded recursion)
        native("late-handler-on-top", ["w_chain", "--seed", seed + 37, "--reps", 1], timeout=600),
        # an armed shutdown must leave with _exit: running exit-time hooks inside the handler is not async-signal-safe
        native("armed-shutdown-no-exit-hooks", ["w_flag", "--seed", seed + 35, "--scripts", 300 if q else 5000], also=["C15"]),
        # three parties: deliveries held inside the dispatcher, a writer in the middle of the first registration of another
        # signal (it has to wait for them), and deliveries that begin in that state: they must reach their snapshot, none of
        # them may sleep behind the waiting writer
        native("deliveries-during-a-waiting-first-registration", ["w_live", "--mode", "gate", "--trials", 272, "--seed", seed + 38], timeout=600),
    ]
    return st


PLANS["C03"] = {
    "steps": c03_steps,
    "evidence": assemble(
        "fault_enumeration",
        "(c) freeze sweep, complete in both tiers: operation in {first register, later register, unregister, unregister_signal, "
        "add_signal, drop of Signals, a wait() pass, pending() on a raw iterator (channel recv), close} x failpoint (every site the "
        "operation passes) x occurrence 1..2 x {operator thread frozen there while another thread takes one delivery of each of the 9 "
        "built-in action sets (flags, pipe write, send on a full socket, SignalOnly / WithRawSiginfo / WithOrigin iterators, "
        "disarmed shutdown, disarmed and armed-ignore-kind default emulation); the delivery raised on the operating thread itself "
        "at that point}: the delivery must reach DISPATCH_EXIT and pass exactly as many failpoints as without interference; a "
        "delivery blocked in a system call or burning CPU inside the bracket while the operator is parked is the verdict (stable "
        "state, read from /proc). (b) strace -f: system calls between '--- SIG ---' and rt_sigreturn per thread must be a subset of "
        "{write, sendto(MSG_DONTWAIT)}. (a) counting global allocator: no heap operation while a dispatcher is active on the "
        "thread, under real-signal stress on registry, iterators and channel. distinct = (operation, variant, site#occurrence) "
        "reached + action sets seen under strace. (d) three-party state (w_live gate): 1-3 deliveries parked inside the dispatcher, "
        "a writer waiting for them in the first registration of another signal, 1-3 further deliveries sent then: each must reach "
        "its snapshot (parked at the next failpoint); one found asleep in futex inside its dispatch bracket is the verdict",
        ["'every instruction boundary' became: every failpoint of every mutator/consumer path deterministically, arbitrary "
         "instructions statistically (real signals, allocator monitor only)",
         "an uncontended lock taken in the dispatcher is invisible to strace; the freeze sweep catches it where a frozen thread holds it"],
        exhaustive=False),
    "floor": floor_counters(freeze_sites_reached=150, freeze_deliveries_checked=700, strace_brackets=40, dispatches=1000),
}


def c18_steps(tier, seed):
    q = tier == "quick"
    return [
        native("gate-schedule", ["w_live", "--mode", "gate", "--trials", 3000 if q else 60000, "--seed", seed], timeout=900),
        native("free-running", ["w_live", "--mode", "free", "--rounds", 40 if q else 1500, "--round-ms", 50, "--seed", seed], timeout=600 if q else 3000),
    ]


PLANS["C18"] = {
    "steps": c18_steps,
    "evidence": assemble(
        "exploration",
        "gate schedule: 1..3 deliveries held inside their read section across the writer's swap, writer seen spinning after the "
        "generation flip, 0..3 later deliveries started (other slot) and held, first wave released: the writer must return within "
        "its own barrier iterations (bound 20000, observed maximum in coverage.counters) while the second wave is still held, and "
        "the log must show at most 3 HL_B_SPIN after the last overlapping bracket exited; slots swap roles every trial. "
        "Free-running: 5 mutators (register, unregister, unregister_signal, concurrent first registrations of fresh signals, "
        "Signals add_signal/drop, caught forbidden-signal panics) under a delivery stream with periodic quiescent points; a mutator "
        "blocked in futex or spinning without progress while senders are paused and no bracket is open is a deadlock (stable). "
        "distinct = (d1 count, d2 count, operation, spins-after) tuples + quiescent points",
        ["the unbounded fairness quantifier is restated as bounded progress; an infinite stream of overlapping deliveries that keeps "
         "one slot busy is outside what is checked (the unchanged algorithm admits that starvation)"]),
    "floor": floor_counters(gate_trials=100, quiescent_points=10, forbidden_panics_caught=10, concurrent_first_registrations=5),
}
