"""Offline oracle over `strace -f` traces (C03 syscall allow-list per delivery bracket, C13 wake/close accounting)."""
import re

SIG_RE = re.compile(r"^(\d+)\s+--- (SIG\w+|SIGRT_\d+|SIGRTMIN\+?\d*) \{(.*)\} ---")
CALL_RE = re.compile(r"^(\d+)\s+(\w+)\((.*)$")
RESUMED_RE = re.compile(r"^(\d+)\s+<\.\.\. (\w+) resumed>(.*)$")
MARK_RE = re.compile(r'write\(-1, "VHMARK ([^"]*)"')

SIGNUM = {"SIGHUP": 1, "SIGINT": 2, "SIGQUIT": 3, "SIGILL": 4, "SIGTRAP": 5, "SIGABRT": 6, "SIGBUS": 7, "SIGFPE": 8, "SIGKILL": 9,
          "SIGUSR1": 10, "SIGSEGV": 11, "SIGUSR2": 12, "SIGPIPE": 13, "SIGALRM": 14, "SIGTERM": 15, "SIGSTKFLT": 16, "SIGCHLD": 17,
          "SIGCONT": 18, "SIGSTOP": 19, "SIGTSTP": 20, "SIGTTIN": 21, "SIGTTOU": 22, "SIGURG": 23, "SIGXCPU": 24, "SIGXFSZ": 25,
          "SIGVTALRM": 26, "SIGPROF": 27, "SIGWINCH": 28, "SIGIO": 29, "SIGPWR": 30, "SIGSYS": 31}


def signum(name):
    if name in SIGNUM:
        return SIGNUM[name]
    m = re.match(r"SIGRT_(\d+)", name)
    if m:
        return 32 + int(m.group(1))
    m = re.match(r"SIGRTMIN\+?(\d*)", name)
    if m:
        return 34 + int(m.group(1) or 0)
    return -1


def parse(path):
    """Yields events in file order: dicts with kind in {signal, call, resumed, mark}."""
    evs = []
    with open(path, errors="replace") as f:
        for ln, line in enumerate(f, 1):
            line = line.rstrip("\n")
            m = SIG_RE.match(line)
            if m:
                evs.append({"kind": "signal", "pid": int(m.group(1)), "sig": signum(m.group(2)), "name": m.group(2), "line": ln, "text": line})
                continue
            m = RESUMED_RE.match(line)
            if m:
                evs.append({"kind": "resumed", "pid": int(m.group(1)), "name": m.group(2), "rest": m.group(3), "line": ln, "text": line})
                continue
            m = CALL_RE.match(line)
            if m:
                mk = MARK_RE.search(line)
                if mk:
                    evs.append({"kind": "mark", "pid": int(m.group(1)), "mark": mk.group(1), "line": ln, "text": line})
                else:
                    evs.append({"kind": "call", "pid": int(m.group(1)), "name": m.group(2), "args": m.group(3), "line": ln, "text": line})
    return evs


def brackets(evs):
    """Per pid: list of (signal event, [calls inside, at any nesting depth attributed to the innermost bracket], closed?)."""
    stacks = {}
    out = []
    for e in evs:
        pid = e["pid"]
        st = stacks.setdefault(pid, [])
        if e["kind"] == "signal":
            b = {"sig": e["sig"], "name": e["name"], "pid": pid, "line": e["line"], "calls": [], "closed": False, "depth": len(st)}
            st.append(b)
            out.append(b)
        elif e["kind"] == "call":
            if e["name"] == "rt_sigreturn":
                if st:
                    st.pop()["closed"] = True
            elif st:
                st[-1]["calls"].append(e)
        elif e["kind"] == "resumed":
            # a call that was begun before the signal arrived and resumes afterwards belongs to the
            # interrupted code, not to the handler: ignore
            pass
    return out


def fd_of(call):
    m = re.match(r"\s*(-?\d+)", call["args"])
    return int(m.group(1)) if m else None


# ---------------------------------------------------------------------------------------------- C13

def analyse_c13(evs, meta):
    viols = []
    wake = meta.get("wake", [])
    br = brackets(evs)
    phase = {}  # fd -> registered?
    # walk the events in order, maintaining which (sig, fd) is registered, and check each bracket as it closes
    registered = {}  # sig -> fd
    closes = {}  # fd -> count since its "register" mark
    written_after_close = []
    stacks = {}
    checked = 0
    after_unreg_writes = 0
    cur_reject = None
    reject_closes = 0
    for e in evs:
        if e["kind"] == "mark":
            m = re.match(r"(\w[\w-]*) (?:sig=(\d+) )?fd=(\d+)", e["mark"])
            if not m:
                continue
            what, sig, fd = m.group(1), m.group(2), int(m.group(3))
            if what == "registered":
                registered[int(sig)] = fd
            elif what == "register":
                closes[fd] = 0
            elif what == "unregister":
                registered.pop(int(sig), None)
            elif what == "unregistered":
                if closes.get(fd, 0) != 1:
                    viols.append({"sig": "strace-fd-close-count", "detail": "descriptor %d was closed %d times by the time unregister returned (line %d)" % (fd, closes.get(fd, 0), e["line"])})
                closes[fd] = -1000  # closed for good; any close before the number is re-created is a double close
            elif what == "rejected":
                cur_reject = fd
                reject_closes = 0
            elif what == "rejected-done":
                if reject_closes != 1:
                    viols.append({"sig": "strace-fd-close-count", "detail": "descriptor %d of a rejected registration was closed %d times" % (fd, reject_closes)})
                cur_reject = None
            continue
        pid = e["pid"]
        st = stacks.setdefault(pid, [])
        if e["kind"] == "signal":
            st.append({"sig": e["sig"], "writes": [], "line": e["line"]})
        elif e["kind"] == "call":
            if e["name"] == "rt_sigreturn":
                if st:
                    b = st.pop()
                    fd = registered.get(b["sig"])
                    if fd is not None:
                        checked += 1
                        mine = [w for w in b["writes"] if w[0] == fd]
                        if len(mine) != 1:
                            viols.append({"sig": "strace-wake-count", "detail": "delivery of signal %d at trace line %d made %d writes to its wake descriptor %d (expected exactly 1): %s" % (b["sig"], b["line"], len(mine), fd, [w[2] for w in b["writes"]][:4])})
                        else:
                            w = mine[0]
                            if w[1] != 1:
                                viols.append({"sig": "strace-wake-size", "detail": "wake write of %d bytes (line %d)" % (w[1], b["line"])})
                            if "sendto" in w[2] and "MSG_DONTWAIT" not in w[2]:
                                viols.append({"sig": "strace-wake-blocking-send", "detail": "wake sendto without MSG_DONTWAIT: %s" % w[2][:120]})
                    else:
                        # not registered (any more): no write to a former wake fd may happen
                        for w in b["writes"]:
                            if any(x["fd"] == w[0] for x in wake):
                                after_unreg_writes += 1
                                viols.append({"sig": "strace-write-after-close", "detail": "delivery of signal %d (line %d) wrote to descriptor %d after the action was removed: %s" % (b["sig"], b["line"], w[0], w[2][:100])})
                continue
            if e["name"] in ("write", "sendto", "send") and st:
                fd = fd_of(e)
                m = re.search(r",\s*(\d+)(?:,|\))", e["args"].split('"')[-1]) if '"' in e["args"] else None
                size = int(m.group(1)) if m else -1
                st[-1]["writes"].append((fd, size, e["text"]))
            if e["name"] == "close":
                fd = fd_of(e)
                if fd in closes:
                    closes[fd] += 1
                    if closes[fd] < 0:
                        viols.append({"sig": "strace-double-close", "detail": "descriptor %d closed again at line %d after the library had already closed it" % (fd, e["line"])})
                if cur_reject is not None and fd == cur_reject:
                    reject_closes += 1
            if e["name"] in ("pipe", "pipe2", "socketpair"):
                # numbers are being re-created: forget the "closed for good" state of those numbers
                for n in re.findall(r"\[(\d+), (\d+)\]", e["args"]):
                    for x in n:
                        if closes.get(int(x), 0) < 0:
                            closes.pop(int(x), None)
    if checked < meta.get("deliveries_while_registered", 0):
        viols.append({"sig": "strace-missing-brackets", "detail": "only %d delivery brackets found for %d deliveries made while registered" % (checked, meta.get("deliveries_while_registered", 0))})
    return viols, {"strace_brackets": checked, "evaluations": checked, "distinct_keys": ["wake:%s" % w["kind"] for w in wake] + ["rejected"],
                   "samples": [e["text"] for e in evs if e["kind"] == "call" and e["name"] in ("write", "sendto") and '"X"' in e["args"]][:3]}


# ---------------------------------------------------------------------------------------------- C03

ALLOWED_IN_HANDLER = {"write", "sendto", "rt_sigreturn"}
# only for the armed default-emulation action (ignore-kind here: nothing) and shutdown (not armed here)
ALLOWED_EXTRA = set()


def analyse_c03(evs, meta):
    viols = []
    names = {a["sig"]: a["name"] for a in meta.get("action_sets", [])}
    # only brackets between the two marks
    begin = next((e["line"] for e in evs if e["kind"] == "mark" and e["mark"].startswith("deliveries-begin")), 0)
    end = next((e["line"] for e in evs if e["kind"] == "mark" and e["mark"].startswith("deliveries-end")), 10 ** 9)
    br = [b for b in brackets(evs) if begin < b["line"] < end]
    per = {}
    seen_calls = {}
    unclosed = 0
    for b in br:
        if not b["closed"]:
            unclosed += 1
            continue
        k = names.get(b["sig"], "sig%d" % b["sig"])
        per[k] = per.get(k, 0) + 1
        for c in b["calls"]:
            seen_calls[c["name"]] = seen_calls.get(c["name"], 0) + 1
            if c["name"] not in ALLOWED_IN_HANDLER | ALLOWED_EXTRA:
                viols.append({"sig": "syscall-in-handler:%s" % c["name"],
                              "detail": "delivery of signal %d (%s, trace line %d, thread %d) made the system call %s" % (b["sig"], k, b["line"], b["pid"], c["text"][:160])})
            elif c["name"] == "sendto" and "MSG_DONTWAIT" not in c["args"]:
                viols.append({"sig": "blocking-send-in-handler", "detail": "sendto without MSG_DONTWAIT inside a delivery: %s" % c["text"][:160]})
    if unclosed:
        viols.append({"sig": "delivery-did-not-return", "detail": "%d delivery brackets have no rt_sigreturn (the delivery never finished)" % unclosed})
    missing = [n for n in names.values() if per.get(n, 0) == 0]
    summary = {"strace_brackets": len(br), "evaluations": len(br), "brackets_per_action_set": per, "syscalls_seen_in_handlers": seen_calls,
               "distinct_keys": ["%s:%s" % (k, "nested" if any(b["depth"] > 0 for b in br if names.get(b["sig"]) == k) else "flat") for k in per],
               "samples": [b["name"] + ": " + ", ".join(c["name"] for c in b["calls"]) for b in br[:6]]}
    if missing:
        summary["action_sets_without_bracket"] = missing
    return viols, summary


def analyse_c14(evs, meta):
    """A descriptor handed to a refused registration must be closed exactly once: any close() answered with EBADF
    in the traced children is a second close."""
    viols = []
    closes = 0
    for e in evs:
        if e["kind"] == "call" and e["name"] == "close":
            closes += 1
            if "EBADF" in e["args"]:
                viols.append({"sig": "strace-double-close", "detail": "close() of an already closed descriptor (line %d): %s" % (e["line"], e["text"][:120])})
    return viols, {"strace_closes_seen": closes, "evaluations": closes, "distinct_keys": ["closes"], "samples": [e["text"] for e in evs if e["kind"] == "call" and e["name"] == "close"][:2]}


def analyse(trace, st, summaries):
    evs = parse(trace)
    meta = {}
    for s in summaries:
        if "trace_meta" in s:
            meta = s["trace_meta"]
    which = st.get("oracle")
    if which == "c14":
        v, s = analyse_c14(evs, meta)
        for x in v:
            x["property"] = "C14"
    elif which == "c13":
        v, s = analyse_c13(evs, meta)
        for x in v:
            x["property"] = "C13"
    else:
        v, s = analyse_c03(evs, meta)
        for x in v:
            x["property"] = "C03"
    return {"violations": v, "summary": s}
