//! w_strace: small, quiet workloads meant to be run under `strace -f`; the trace is the evidence
//! and lib/straceparse.py is the oracle. Phase markers are writes to descriptor -1.
//!   --what pipe     (C13) self-pipe registrations on a pipe and on sockets, bursts, unregister
//!   --what actions  (C03) every built-in action set, deliveries on a spinning thread and nested

use std::os::unix::io::{AsRawFd, IntoRawFd};
use std::os::unix::net::{UnixDatagram, UnixStream};
use std::sync::atomic::{AtomicBool, AtomicUsize, Ordering};
use std::sync::Arc;

use signal_hook::iterator::exfiltrator::{WithOrigin, WithRawSiginfo};
use signal_hook::iterator::{Signals, SignalsInfo};

use crate::jsonw::{emit, J};
use crate::{arg_str, arg_u64};

fn mark(s: &str) {
    let m = format!("VHMARK {}", s);
    unsafe { libc::write(-1, m.as_ptr() as *const _, m.len()) };
}

fn pipe_part() -> J {
    let mut wake = Vec::new();
    let mut deliveries = 0u64;
    // (signal, kind)
    let cases: [(i32, &str); 3] = [(libc::SIGUSR1, "pipe"), (libc::SIGUSR2, "stream"), (libc::SIGHUP, "dgram")];
    for (sig, kind) in cases.iter() {
        let (rfd, wfd) = match *kind {
            "pipe" => {
                let mut f = [0; 2];
                unsafe { libc::pipe(f.as_mut_ptr()) };
                (f[0], f[1])
            }
            "stream" => {
                let (r, w) = UnixStream::pair().unwrap();
                (r.into_raw_fd(), w.into_raw_fd())
            }
            _ => {
                let (r, w) = UnixDatagram::pair().unwrap();
                (r.into_raw_fd(), w.into_raw_fd())
            }
        };
        mark(&format!("register sig={} fd={}", sig, wfd));
        let id = signal_hook::low_level::pipe::register_raw(*sig, wfd).unwrap();
        mark(&format!("registered sig={} fd={}", sig, wfd));
        for _ in 0..7 {
            unsafe { libc::raise(*sig) };
            deliveries += 1;
        }
        mark(&format!("unregister sig={} fd={}", sig, wfd));
        signal_hook::low_level::unregister(id);
        mark(&format!("unregistered sig={} fd={}", sig, wfd));
        for _ in 0..3 {
            unsafe { libc::raise(*sig) };
        }
        unsafe { libc::close(rfd) };
        wake.push(J::obj().set("sig", J::i(*sig as i64)).set("fd", J::i(wfd as i64)).set("kind", J::s(kind)));
    }
    // a rejected registration: the descriptor must be closed exactly once, too
    let mut f = [0; 2];
    unsafe { libc::pipe(f.as_mut_ptr()) };
    mark(&format!("rejected fd={}", f[1]));
    let _ = signal_hook::low_level::pipe::register_raw(65, f[1]);
    mark(&format!("rejected-done fd={}", f[1]));
    unsafe { libc::close(f[0]) };
    J::obj().set("wake", J::Arr(wake)).set("deliveries_while_registered", J::u(deliveries)).set("rejected_fd", J::i(f[1] as i64))
}

fn actions_part(rounds: u64) -> J {
    // every built-in action set on its own signal
    let rt = crate::sig::rtmin();
    let flag = Arc::new(AtomicBool::new(false));
    let uflag = Arc::new(AtomicUsize::new(0));
    let never = Arc::new(AtomicBool::new(false));
    let mut sigs: Vec<(i32, &str)> = Vec::new();
    signal_hook::flag::register(libc::SIGUSR1, flag.clone()).unwrap();
    signal_hook::flag::register_usize(libc::SIGUSR1, uflag.clone(), 9).unwrap();
    sigs.push((libc::SIGUSR1, "flags"));
    let mut p = [0; 2];
    unsafe { libc::pipe(p.as_mut_ptr()) };
    signal_hook::low_level::pipe::register_raw(libc::SIGUSR2, p[1]).unwrap();
    sigs.push((libc::SIGUSR2, "pipe-write"));
    // a socket that is completely full: the wake must still return at once
    let (sr, sw) = UnixStream::pair().unwrap();
    sw.set_nonblocking(true).unwrap();
    let junk = [0u8; 4096];
    loop {
        let n = unsafe { libc::send(sw.as_raw_fd(), junk.as_ptr() as *const _, junk.len(), libc::MSG_DONTWAIT) };
        if n <= 0 {
            break;
        }
    }
    sw.set_nonblocking(false).unwrap();
    signal_hook::low_level::pipe::register(libc::SIGHUP, sw).unwrap();
    sigs.push((libc::SIGHUP, "socket-send-full"));
    let mut it1 = Signals::new([rt + 1]).unwrap();
    sigs.push((rt + 1, "iterator-signal-only"));
    let mut it2 = SignalsInfo::<WithRawSiginfo>::new([rt + 2]).unwrap();
    sigs.push((rt + 2, "iterator-raw"));
    let mut it3 = SignalsInfo::<WithOrigin>::new([rt + 3]).unwrap();
    sigs.push((rt + 3, "iterator-origin"));
    signal_hook::flag::register_conditional_shutdown(libc::SIGTERM, 1, never.clone()).unwrap();
    sigs.push((libc::SIGTERM, "shutdown-disarmed"));
    signal_hook::flag::register_conditional_default(libc::SIGWINCH, never.clone()).unwrap();
    sigs.push((libc::SIGWINCH, "default-disarmed"));
    let armed = Arc::new(AtomicBool::new(true));
    signal_hook::flag::register_conditional_default(libc::SIGURG, armed.clone()).unwrap();
    sigs.push((libc::SIGURG, "default-armed-ignore-kind"));

    let stop = Arc::new(AtomicBool::new(false));
    let th_id = Arc::new(AtomicUsize::new(0));
    let j = {
        let (stop, th_id) = (stop.clone(), th_id.clone());
        std::thread::spawn(move || {
            th_id.store(unsafe { libc::pthread_self() } as usize, Ordering::SeqCst);
            crate::pool::victim_spin(&stop);
        })
    };
    while th_id.load(Ordering::SeqCst) == 0 {
        std::thread::yield_now();
    }
    let th = th_id.load(Ordering::SeqCst) as libc::pthread_t;
    mark("deliveries-begin");
    let mut sent = 0u64;
    for r in 0..rounds {
        for (s, _) in sigs.iter() {
            // on the spinning thread (interrupted in user code) and on this thread (synchronously)
            crate::sig::queue_thread(th, *s, (r + 1) as usize);
            unsafe { libc::raise(*s) };
            sent += 2;
        }
        // give the victim time to take them, then drain so that buffers do not saturate the picture
        for _ in 0..2000 {
            std::hint::spin_loop();
        }
        let _ = it1.pending().count();
        let _ = it2.pending().count();
        let _ = it3.pending().count();
        let mut b = [0u8; 64];
        unsafe {
            let fl = libc::fcntl(p[0], libc::F_GETFL);
            libc::fcntl(p[0], libc::F_SETFL, fl | libc::O_NONBLOCK);
            libc::read(p[0], b.as_mut_ptr() as *mut _, b.len());
        }
    }
    std::thread::sleep(std::time::Duration::from_millis(20));
    mark("deliveries-end");
    stop.store(true, Ordering::SeqCst);
    j.join().unwrap();
    drop(sr);
    J::obj()
        .set("action_sets", J::arr(sigs.iter().map(|(s, n)| J::obj().set("sig", J::i(*s as i64)).set("name", J::s(n)))))
        .set("signals_sent", J::u(sent))
}

pub fn main(args: &[String]) -> i32 {
    let what = arg_str(args, "--what", "pipe").to_string();
    let rounds = arg_u64(args, "--rounds", 5);
    let body = match what.as_str() {
        "pipe" => pipe_part(),
        _ => actions_part(rounds),
    };
    emit(&J::obj()
        .set("type", J::s("summary"))
        .set("workload", J::s("w_strace"))
        .set("mode", J::s(&what))
        .set("evaluations", J::u(1))
        .set("trace_meta", body));
    0
}
