//! Instruction-granular failpoints.
//!
//! The hook sites compiled into the library are a few dozen places; a realistic defect can open a
//! window that lies between two of them (a compare-exchange replaced by a load and a store has its
//! window between two adjacent instructions). Here the calling thread single-steps itself with the
//! x86 trap flag: after `arm(k, ..)` every instruction raises SIGTRAP, the handler counts the
//! instructions executed outside the harness's own hook code and, at the k-th one, runs an action
//! on top of the interrupted instruction stream - a real nested delivery (`pthread_sigqueue(self)`)
//! or a rendez-vous with another thread that performs a complete operation in the meantime. Sweeping k
//! over the whole operation visits every instruction boundary of it, which is exactly the set of
//! points where a signal handler can interrupt the thread (and a superset of the hook sites).
//!
//! The kernel clears TF while a handler runs and restores it on sigreturn, so neither the SIGTRAP
//! handler nor the nested library dispatcher is stepped.

use std::cell::Cell;
use std::sync::atomic::{AtomicBool, AtomicPtr, AtomicU64, Ordering};

pub type Action = fn(k: u64, rip: usize);

pub struct State {
    /// plan: arm at the `plan_occ`-th arrival of this thread at hook site `plan_site` (0 = no plan) whose
    /// arguments match the filters, then fire after `plan_k` instructions
    pub plan_site: AtomicU64,
    pub plan_occ: AtomicU64,
    pub plan_k: AtomicU64,
    pub plan_a: AtomicU64,
    pub plan_b: AtomicU64,
    pub plan_depth0: AtomicBool,
    /// site at which the current / last stepping was armed (0 = armed by hand)
    pub armed_site: AtomicU64,
    /// how many steppings were armed by a plan / ended at the next hook arrival
    pub armed_n: AtomicU64,
    pub active: AtomicBool,
    pub count: AtomicU64,
    pub target: AtomicU64,
    pub max: AtomicU64,
    pub fired: AtomicU64,
    pub fired_rip: AtomicU64,
    pub traps: AtomicU64,
    action: AtomicPtr<()>,
}

#[allow(clippy::declare_interior_mutable_const)]
const S0: State = State {
    plan_site: AtomicU64::new(0),
    plan_occ: AtomicU64::new(0),
    plan_k: AtomicU64::new(0),
    plan_a: AtomicU64::new(u64::MAX),
    plan_b: AtomicU64::new(u64::MAX),
    plan_depth0: AtomicBool::new(true),
    armed_site: AtomicU64::new(0),
    armed_n: AtomicU64::new(0),
    active: AtomicBool::new(false),
    count: AtomicU64::new(0),
    target: AtomicU64::new(0),
    max: AtomicU64::new(0),
    fired: AtomicU64::new(0),
    fired_rip: AtomicU64::new(0),
    traps: AtomicU64::new(0),
    action: AtomicPtr::new(std::ptr::null_mut()),
};
pub static STATES: [State; 64] = [S0; 64];

#[allow(clippy::declare_interior_mutable_const)]
const G0: AtomicU64 = AtomicU64::new(0);
/// Largest number of instructions seen between an arrival at a hook site and the thread's next hook arrival.
pub static GAP: [AtomicU64; 128] = [G0; 128];
/// Last measured gap per thread (instructions from the arming site to the next hook arrival).
pub static LAST_GAP: [AtomicU64; 64] = [G0; 64];

/// Total SIGTRAPs taken / actions fired by all threads (evidence).
pub static TOTAL_TRAPS: AtomicU64 = AtomicU64::new(0);
pub static TOTAL_FIRED: AtomicU64 = AtomicU64::new(0);

thread_local! {
    /// Set while the thread is inside the harness's hook (director): those instructions are not counted.
    pub static IN_HOOK: Cell<u32> = const { Cell::new(0) };
    /// Set while the step action runs (so that canaries can tell "inside an injected handler").
    pub static IN_STEP_ACTION: Cell<u32> = const { Cell::new(0) };
}

#[cfg(all(target_arch = "x86_64", target_os = "linux", not(miri)))]
mod imp {
    use super::*;

    const TF: i64 = 0x100;

    extern "C" fn on_trap(_sig: libc::c_int, _info: *mut libc::siginfo_t, uc: *mut libc::c_void) {
        let uc = uc as *mut libc::ucontext_t;
        let errno_p = unsafe { libc::__errno_location() };
        let saved_errno = unsafe { *errno_p };
        let t = crate::tid() as usize % 64;
        let st = &STATES[t];
        TOTAL_TRAPS.fetch_add(1, Ordering::Relaxed);
        st.traps.fetch_add(1, Ordering::Relaxed);
        let gregs = unsafe { &mut (*uc).uc_mcontext.gregs };
        if !st.active.load(Ordering::SeqCst) {
            gregs[libc::REG_EFL as usize] &= !TF;
            return;
        }
        if IN_HOOK.with(|h| h.get()) == 0 {
            let c = st.count.fetch_add(1, Ordering::SeqCst) + 1;
            if c == st.target.load(Ordering::SeqCst) {
                // relative to a fixed function of this binary, so that the value does not depend on ASLR
                let rip = (gregs[libc::REG_RIP as usize] as usize).wrapping_sub(on_trap as usize);
                st.fired.fetch_add(1, Ordering::SeqCst);
                st.fired_rip.store(rip as u64, Ordering::SeqCst);
                TOTAL_FIRED.fetch_add(1, Ordering::Relaxed);
                let a = st.action.load(Ordering::SeqCst);
                if !a.is_null() {
                    let f: Action = unsafe { std::mem::transmute::<*mut (), Action>(a) };
                    IN_STEP_ACTION.with(|i| i.set(i.get() + 1));
                    f(c, rip);
                    IN_STEP_ACTION.with(|i| i.set(i.get() - 1));
                }
            }
            if c >= st.max.load(Ordering::SeqCst) {
                st.active.store(false, Ordering::SeqCst);
                gregs[libc::REG_EFL as usize] &= !TF;
            }
        }
        unsafe { *errno_p = saved_errno };
    }

    pub fn install() {
        unsafe {
            let mut sa: libc::sigaction = std::mem::zeroed();
            sa.sa_sigaction = on_trap as usize;
            sa.sa_flags = libc::SA_SIGINFO | libc::SA_RESTART;
            libc::sigemptyset(&mut sa.sa_mask);
            libc::sigaction(libc::SIGTRAP, &sa, std::ptr::null_mut());
        }
    }

    #[inline(never)]
    pub fn set_tf() {
        unsafe {
            std::arch::asm!("pushfq", "or qword ptr [rsp], 0x100", "popfq");
        }
    }

    #[inline(never)]
    pub fn clear_tf() {
        unsafe {
            std::arch::asm!("pushfq", "and qword ptr [rsp], -257", "popfq");
        }
    }
}

#[cfg(not(all(target_arch = "x86_64", target_os = "linux", not(miri))))]
mod imp {
    pub fn install() {}
    pub fn set_tf() {}
    pub fn clear_tf() {}
}

pub fn supported() -> bool {
    cfg!(all(target_arch = "x86_64", target_os = "linux", not(miri)))
}

pub fn install() {
    imp::install();
}

/// Start single-stepping the calling thread. The action runs once, on top of the `target`-th
/// counted instruction; stepping stops by itself after `max` counted instructions or at `disarm`.
pub fn arm(target: u64, max: u64, action: Action) {
    let st = &STATES[crate::tid() as usize % 64];
    st.count.store(0, Ordering::SeqCst);
    st.target.store(target, Ordering::SeqCst);
    st.max.store(max.max(1), Ordering::SeqCst);
    st.fired.store(0, Ordering::SeqCst);
    st.fired_rip.store(0, Ordering::SeqCst);
    st.action.store(action as *mut (), Ordering::SeqCst);
    st.armed_site.store(0, Ordering::SeqCst);
    st.active.store(true, Ordering::SeqCst);
    imp::set_tf();
}

/// Stop stepping; returns (instructions counted, action fired?, rip where it fired).
pub fn disarm() -> (u64, bool, usize) {
    let st = &STATES[crate::tid() as usize % 64];
    if st.active.swap(false, Ordering::SeqCst) {
        LAST_GAP[crate::tid() as usize % 64].store(st.count.load(Ordering::SeqCst), Ordering::SeqCst);
    }
    imp::clear_tf();
    (st.count.load(Ordering::SeqCst), st.fired.load(Ordering::SeqCst) > 0, st.fired_rip.load(Ordering::SeqCst) as usize)
}

/// Plan a stepping for thread `tid` (harness id): at its `occ`-th arrival at `site` with matching arguments
/// (`u64::MAX` = any) the thread arms itself and the action fires `k` instructions later. Stepping ends at
/// the thread's next hook arrival (or after `max` instructions).
#[allow(clippy::too_many_arguments)]
pub fn plan_for(tid: u32, site: u32, occ: u64, k: u64, max: u64, a: u64, b: u64, depth0: bool, action: Action) {
    let st = &STATES[tid as usize % 64];
    st.plan_site.store(0, Ordering::SeqCst);
    st.plan_occ.store(occ.max(1), Ordering::SeqCst);
    st.plan_k.store(k, Ordering::SeqCst);
    st.plan_a.store(a, Ordering::SeqCst);
    st.plan_b.store(b, Ordering::SeqCst);
    st.plan_depth0.store(depth0, Ordering::SeqCst);
    st.max.store(max.max(1), Ordering::SeqCst);
    st.action.store(action as *mut (), Ordering::SeqCst);
    st.fired.store(0, Ordering::SeqCst);
    st.armed_n.store(0, Ordering::SeqCst);
    st.plan_site.store(site as u64, Ordering::SeqCst);
}

pub fn cancel_plan(tid: u32) {
    STATES[tid as usize % 64].plan_site.store(0, Ordering::SeqCst);
}

/// Called by the director at every hook arrival of the calling thread (before observers and rules).
#[inline]
pub fn on_hook(site: u32, a: usize, b: usize) {
    let t = crate::tid() as usize % 64;
    let st = &STATES[t];
    if st.active.load(Ordering::Relaxed) && IN_STEP_ACTION.with(|i| i.get()) == 0 {
        // next hook arrival of the stepping thread: the window ends here
        st.active.store(false, Ordering::SeqCst);
        imp::clear_tf();
        let n = st.count.load(Ordering::SeqCst);
        LAST_GAP[t].store(n, Ordering::SeqCst);
        let asite = st.armed_site.load(Ordering::SeqCst) as usize;
        if asite < 128 {
            GAP[asite].fetch_max(n, Ordering::Relaxed);
        }
    }
    let ps = st.plan_site.load(Ordering::Relaxed);
    if ps != 0 && ps == site as u64 && IN_STEP_ACTION.with(|i| i.get()) == 0 {
        let fa = st.plan_a.load(Ordering::Relaxed);
        let fb = st.plan_b.load(Ordering::Relaxed);
        if (fa != u64::MAX && fa != a as u64) || (fb != u64::MAX && fb != b as u64) {
            return;
        }
        if st.plan_depth0.load(Ordering::Relaxed) && crate::depth() > 0 {
            return;
        }
        if st.plan_occ.fetch_sub(1, Ordering::SeqCst) != 1 {
            return;
        }
        st.plan_site.store(0, Ordering::SeqCst);
        st.count.store(0, Ordering::SeqCst);
        st.target.store(st.plan_k.load(Ordering::SeqCst), Ordering::SeqCst);
        st.fired_rip.store(0, Ordering::SeqCst);
        st.armed_site.store(site as u64, Ordering::SeqCst);
        st.armed_n.fetch_add(1, Ordering::SeqCst);
        st.active.store(true, Ordering::SeqCst);
        imp::set_tf();
    }
}

pub fn is_active() -> bool {
    STATES[crate::tid() as usize % 64].active.load(Ordering::SeqCst)
}

pub fn state_of(tid: u32) -> &'static State {
    &STATES[tid as usize % 64]
}

pub fn in_step_action() -> bool {
    IN_STEP_ACTION.with(|i| i.get()) > 0
}
