//! w_reg: registry under fire. Decides C01 (canaries), C02 (log mode: every dispatch bracket
//! runs exactly one candidate state) and the allocation part of C03.
//!
//! modes:
//!   --mode stress : shared signals, several mutators per signal, one "clearer" using
//!                   unregister_signal; canary + allocator monitors.
//!   --mode owner  : one owner mutator per signal, full event log, offline snapshot checker.
//! phases (Director): none | delay | raise | istep (owner mode: nested delivery at a random instruction of every registry call)

use std::collections::{HashMap, HashSet, VecDeque};
use std::sync::atomic::{AtomicBool, AtomicI64, AtomicU32, AtomicU64, AtomicUsize, Ordering};
use std::sync::{Arc, Barrier};

use libc::c_int;
use signal_hook_registry::SigId;

use crate::director::{self, ctx, mode, RuleSpec};
use crate::evlog::{self, kind};
use crate::jsonw::{emit, emit_violation, J};
use crate::pool::{self, KillerCfg, SigSpec};
use crate::rng::Rng;
use crate::{arg_str, arg_u64, class, site, violation, ACT_DEPTH, DEPTH};

// ---- violation codes
const V_STALE: usize = 1;
const V_LATE_START: usize = 2;
const V_IN_FLIGHT: usize = 3;
const V_DROPS: usize = 4;
const V_DROP_TID: usize = 5;
const V_DROP_DEPTH: usize = 6;
const V_WRONG_SIGNAL: usize = 7;
const V_RUN_AFTER_ALL_REMOVED: usize = 8;
const V_IT_AFTER_DROP: usize = 9;

fn vname(c: usize) -> &'static str {
    match c {
        V_STALE => "action-ran-on-recycled-canary",
        V_LATE_START => "action-started-or-running-after-removal-returned",
        V_IN_FLIGHT => "invocation-in-flight-when-removal-returned",
        V_DROPS => "captured-state-not-released-exactly-once-at-return",
        V_DROP_TID => "captured-state-released-by-other-thread",
        V_DROP_DEPTH => "captured-state-released-inside-handler",
        V_WRONG_SIGNAL => "action-ran-for-other-signal",
        V_RUN_AFTER_ALL_REMOVED => "action-ran-after-all-removed",
        V_IT_AFTER_DROP => "iterator-action-ran-after-owner-dropped",
        _ => "?",
    }
}

// ---- canaries
const POOL_N: usize = 1 << 14;
const PER_MUT: usize = 1 << 11;

const ST_FREE: u32 = 0;
const ST_REGISTERING: u32 = 1;
const ST_REGISTERED: u32 = 2;
const ST_REMOVED: u32 = 3;

struct Canary {
    gen: AtomicU64,
    state: AtomicU32,
    sig: AtomicU32,
    tag: AtomicU64,
    in_progress: AtomicI64,
    runs: AtomicU64,
    removed: AtomicU32,
    drops: AtomicU32,
    drop_tid: AtomicU32,
    drop_depth: AtomicU32,
    reg_ret_tick: AtomicUsize,
}

#[allow(clippy::declare_interior_mutable_const)]
const C0: Canary = Canary {
    gen: AtomicU64::new(0),
    state: AtomicU32::new(0),
    sig: AtomicU32::new(0),
    tag: AtomicU64::new(0),
    in_progress: AtomicI64::new(0),
    runs: AtomicU64::new(0),
    removed: AtomicU32::new(0),
    drops: AtomicU32::new(0),
    drop_tid: AtomicU32::new(0),
    drop_depth: AtomicU32::new(0),
    reg_ret_tick: AtomicUsize::new(0),
};
static POOL: [Canary; POOL_N] = [C0; POOL_N];

static LOG_ACTIONS: AtomicBool = AtomicBool::new(false);
static ACTION_RUNS: AtomicU64 = AtomicU64::new(0);
static OVERLAP_AT_UNREG: AtomicU64 = AtomicU64::new(0);
/// a few written-out canary checks (removal called while the action was running): (tag, sig, remover tid, drops, drop tid)
static CANARY_SAMPLES: std::sync::Mutex<Vec<(u64, c_int, u32, u32, u32)>> = std::sync::Mutex::new(Vec::new());

struct Guard {
    idx: usize,
    gen: u64,
    spin: u32,
}

const SLOW_ACTION: u32 = u32::MAX;

impl Guard {
    #[inline]
    fn run(&self, delivered: Option<c_int>) {
        let c = &POOL[self.idx];
        ACT_DEPTH.with(|d| d.set(d.get() + 1));
        c.in_progress.fetch_add(1, Ordering::SeqCst);
        if c.gen.load(Ordering::SeqCst) != self.gen {
            violation(V_STALE, self.idx, self.gen as usize, 0);
        } else {
            if c.removed.load(Ordering::SeqCst) != 0 {
                violation(V_LATE_START, self.idx, c.tag.load(Ordering::SeqCst) as usize, crate::tid() as usize);
            }
            if let Some(s) = delivered {
                if s as u32 != c.sig.load(Ordering::SeqCst) {
                    violation(V_WRONG_SIGNAL, self.idx, s as usize, c.sig.load(Ordering::SeqCst) as usize);
                }
            }
            let runs = c.runs.fetch_add(1, Ordering::Relaxed);
            if LOG_ACTIONS.load(Ordering::Relaxed) {
                evlog::log(kind::ACT_BEGIN, c.tag.load(Ordering::Relaxed), delivered.unwrap_or(0) as u64);
            }
            if self.spin == SLOW_ACTION {
                // a slow action: its first two runs keep the delivery inside the handler for 30 and 12 milliseconds (a removal
                // that overlaps has to wait that long, however long that is)
                if runs < 2 {
                    let t0 = crate::now_ms();
                    while crate::now_ms() - t0 < if runs == 0 { 30 } else { 12 } {
                        std::hint::spin_loop();
                    }
                }
            } else {
                for _ in 0..self.spin {
                    std::hint::spin_loop();
                }
            }
        }
        c.in_progress.fetch_sub(1, Ordering::SeqCst);
        ACT_DEPTH.with(|d| d.set(d.get() - 1));
    }
}

impl Drop for Guard {
    fn drop(&mut self) {
        let c = &POOL[self.idx];
        if c.gen.load(Ordering::SeqCst) == self.gen {
            c.drop_tid.store(crate::tid(), Ordering::SeqCst);
            c.drop_depth.store(DEPTH.with(|d| d.get()) + ACT_DEPTH.with(|d| d.get()), Ordering::SeqCst);
            c.drops.fetch_add(1, Ordering::SeqCst);
        } else {
            violation(V_STALE, self.idx, self.gen as usize, 1);
        }
    }
}

// unregister_signal bookkeeping (single clearer)
#[allow(clippy::declare_interior_mutable_const)]
const AU0: AtomicU64 = AtomicU64::new(0);
static CLEAR_BEGUN: [AtomicU64; 128] = [AU0; 128];
static CLEAR_DONE: [AtomicU64; 128] = [AU0; 128];

// iterator-owner monitor: IT_GONE[sig] != 0 while no Signals instance of the harness watches sig
#[allow(clippy::declare_interior_mutable_const)]
const AB0: AtomicU32 = AtomicU32::new(0);
static IT_GONE: [AtomicU32; 128] = [AB0; 128];
static IT_STORED: AtomicU64 = AtomicU64::new(0);

fn observer(s: u32, a: usize, _b: usize) {
    if s == site::IT_A_STORED {
        IT_STORED.fetch_add(1, Ordering::Relaxed);
        if a < 128 && IT_GONE[a].load(Ordering::SeqCst) != 0 {
            violation(V_IT_AFTER_DROP, a, 0, 0);
        }
    }
}

#[derive(Clone)]
struct Cfg {
    seed: u64,
    owner_mode: bool,
    /// several mutators per signal, everything logged, partial-order checker (no unregister_signal, no Signals)
    shared_log: bool,
    phase: String,
    rounds: u64,
    round_ms: u64,
    mutators: usize,
    victims: usize,
    killers: usize,
    sigs: Vec<SigSpec>,
    ops_per_round: u64,
}

struct Live {
    idx: usize,
    id: SigId,
    sig: c_int,
    tag: u64,
}

struct MutStats {
    registers: u64,
    unregisters: u64,
    clears: u64,
    it_cycles: u64,
}

// ---- instruction-step phase: a real delivery nested at the k-th instruction of a registry call of the owner
#[allow(clippy::declare_interior_mutable_const)]
const SL0: AtomicU64 = AtomicU64::new(0);
static STEP_SIGS: [AtomicU64; 64] = [SL0; 64];
static STEP_ARMED: AtomicU64 = AtomicU64::new(0);
static STEP_FIRED: AtomicU64 = AtomicU64::new(0);
static STEP_RIPS: std::sync::Mutex<Option<HashSet<(u8, usize)>>> = std::sync::Mutex::new(None);

fn step_action(_k: u64, _rip: usize) {
    let sig = STEP_SIGS[crate::tid() as usize % 64].load(Ordering::SeqCst) as c_int;
    let seq = pool::SEQ.fetch_add(1, Ordering::SeqCst);
    evlog::log(kind::SEND, sig as u64, seq);
    crate::sig::queue_self(sig, seq as usize);
}

const STEP_SITES: [u32; 17] = [
    site::HL_W_LOCKED, site::HL_W_ALLOC, site::HL_W_SWAPPED, site::HL_B_FIRST, site::HL_B_FLIP, site::HL_B_DONE,
    site::HL_W_FREE, site::HL_W_FREED, site::REG_CLONED, site::REG_AFTER_SIGACTION, site::REG_BEFORE_PUBLISH, site::REG_DONE,
    site::UNREG_CLONED, site::UNREG_BEFORE_PUBLISH, site::UNREG_DONE, site::REG_BEFORE_FALLBACK, site::REG_AFTER_FALLBACK,
];

/// Either step from the start of the call, or from the 1st/2nd arrival at one of the writer-side hook sites; the
/// delivery fires k instructions later, k drawn from the measured length of that window.
#[inline]
fn step_arm(cfg: &Cfg, rng: &mut Rng, _op: usize, sig: c_int) {
    if cfg.phase != "istep" {
        return;
    }
    let t = crate::tid();
    STEP_SIGS[t as usize % 64].store(sig as u64, Ordering::SeqCst);
    STEP_ARMED.fetch_add(1, Ordering::Relaxed);
    if rng.chance(1, 6) {
        let gap = crate::istep::GAP[0].load(Ordering::Relaxed).max(24);
        crate::istep::arm(1 + rng.below(gap + gap / 8 + 4), 100_000, step_action);
    } else {
        // the first eight sites (half-lock writer) are passed by every call, the rest by register or by unregister
        let s = loop {
            let s = *rng.pick(&STEP_SITES);
            let reg_only = matches!(s, site::REG_CLONED | site::REG_AFTER_SIGACTION | site::REG_BEFORE_PUBLISH | site::REG_DONE | site::REG_BEFORE_FALLBACK | site::REG_AFTER_FALLBACK);
            let unreg_only = matches!(s, site::UNREG_CLONED | site::UNREG_BEFORE_PUBLISH | site::UNREG_DONE);
            if (reg_only && _op != 1) || (unreg_only && _op == 1) {
                continue;
            }
            break s;
        };
        let gap = crate::istep::GAP[s as usize].load(Ordering::Relaxed).max(24);
        crate::istep::plan_for(t, s, 1 + rng.below(2), 1 + rng.below(gap + gap / 8 + 4), 100_000, u64::MAX, u64::MAX, true, step_action);
    }
}

#[inline]
fn step_disarm(cfg: &Cfg, op: usize) {
    if cfg.phase != "istep" {
        return;
    }
    crate::istep::cancel_plan(crate::tid());
    let (_n, fired, rip) = crate::istep::disarm();
    if fired {
        STEP_FIRED.fetch_add(1, Ordering::Relaxed);
        let asite = crate::istep::state_of(crate::tid()).armed_site.load(Ordering::SeqCst) as u8;
        if let Ok(mut g) = STEP_RIPS.lock() {
            g.get_or_insert_with(HashSet::new).insert((asite.wrapping_add((op as u8) << 7), rip));
        }
    }
}

fn check_removed(idx: usize, expect_tid: Option<u32>) {
    let c = &POOL[idx];
    let inflight = c.in_progress.load(Ordering::SeqCst);
    if inflight != 0 {
        violation(V_IN_FLIGHT, idx, inflight as usize, c.tag.load(Ordering::SeqCst) as usize);
    }
    c.removed.store(1, Ordering::SeqCst);
    let drops = c.drops.load(Ordering::SeqCst);
    if drops != 1 {
        violation(V_DROPS, idx, drops as usize, c.tag.load(Ordering::SeqCst) as usize);
    } else {
        if let Some(t) = expect_tid {
            let dt = c.drop_tid.load(Ordering::SeqCst);
            if dt != t {
                violation(V_DROP_TID, idx, dt as usize, t as usize);
            }
        }
        let dd = c.drop_depth.load(Ordering::SeqCst);
        if dd != 0 {
            violation(V_DROP_DEPTH, idx, dd as usize, 0);
        }
    }
    c.state.store(ST_REMOVED, Ordering::SeqCst);
}

#[allow(clippy::too_many_arguments)]
fn mutator(
    m: usize,
    cfg: &Cfg,
    stop: &AtomicBool,
    round: u64,
    clearer_tid: u32,
    next_slot: &mut usize,
    tag_ctr: &mut u64,
    ops_done: &AtomicU64,
) -> MutStats {
    let mut rng = Rng::new(cfg.seed ^ (round << 20) ^ ((m as u64) << 8) ^ 0x55);
    let mut live: VecDeque<Live> = VecDeque::new();
    let mut st = MutStats { registers: 0, unregisters: 0, clears: 0, it_cycles: 0 };
    let my_tid = crate::tid();
    let base = m * PER_MUT;
    let my_sigs: Vec<SigSpec> = if cfg.owner_mode {
        vec![cfg.sigs[m % cfg.sigs.len()]]
    } else {
        cfg.sigs.clone()
    };
    let is_clearer = !cfg.owner_mode && !cfg.shared_log && m == 0;
    let max_live = if cfg.owner_mode { 4 } else { 3 };
    let mut ops = 0u64;

    let step_rng = std::cell::RefCell::new(Rng::new(cfg.seed ^ (round << 24) ^ ((m as u64) << 4) ^ 0x1573));
    let remove_one = |l: Live, st: &mut MutStats| {
        let c = &POOL[l.idx];
        if c.in_progress.load(Ordering::SeqCst) != 0 {
            OVERLAP_AT_UNREG.fetch_add(1, Ordering::Relaxed);
        }
        let begun = CLEAR_BEGUN[l.sig as usize].load(Ordering::SeqCst);
        evlog::log(kind::CALL, 2 | ((l.sig as u64) << 8), l.tag);
        step_arm(cfg, &mut *step_rng.borrow_mut(), 2, l.sig);
        let r = signal_hook_registry::unregister(l.id);
        step_disarm(cfg, 2);
        evlog::log(kind::RET, 2 | ((l.sig as u64) << 8), r as u64);
        director::lib_exit();
        st.unregisters += 1;
        if r {
            check_removed(l.idx, Some(my_tid));
            if c.runs.load(Ordering::Relaxed) > 0 {
                if let Ok(mut v) = CANARY_SAMPLES.try_lock() {
                    if v.len() < 6 {
                        v.push((l.tag, l.sig, my_tid, c.drops.load(Ordering::SeqCst), c.drop_tid.load(Ordering::SeqCst)));
                    }
                }
            }
        } else if cfg.owner_mode {
            // In owner mode nobody else can have removed it.
            if c.state.load(Ordering::SeqCst) == ST_REGISTERED {
                violation(V_DROPS, l.idx, 99, l.tag as usize);
            }
        } else {
            // Removed by the clearer. This call took the writer lock after the clearer's call had finished, so - as after
            // every removal call that has returned - no invocation of the action can still be in progress.
            let inflight = c.in_progress.load(Ordering::SeqCst);
            if inflight != 0 {
                violation(V_IN_FLIGHT, l.idx, inflight as usize, 78);
            }
            let _ = begun;
            let b = CLEAR_BEGUN[l.sig as usize].load(Ordering::SeqCst);
            let mut spins = 0u64;
            while CLEAR_DONE[l.sig as usize].load(Ordering::SeqCst) < b {
                std::thread::yield_now();
                spins += 1;
                if spins > 50_000_000 {
                    break;
                }
            }
            if c.state.load(Ordering::SeqCst) == ST_REGISTERED {
                check_removed(l.idx, Some(clearer_tid));
            }
        }
        // second unregister must say false
        let again = signal_hook_registry::unregister(l.id);
        director::lib_exit();
        if again {
            violation(V_DROPS, l.idx, 98, l.tag as usize);
        }
    };

    loop {
        let stopping = stop.load(Ordering::Relaxed)
            || (cfg.ops_per_round > 0 && ops >= cfg.ops_per_round);
        if stopping {
            break;
        }
        ops += 1;
        ops_done.fetch_add(1, Ordering::Relaxed);
        let choice = rng.below(100);
        if live.len() < max_live && (live.is_empty() || choice < 55) {
            // ---- register
            let s = *rng.pick(&my_sigs);
            // find a free slot
            let mut idx = base + (*next_slot % PER_MUT);
            let mut tries = 0;
            while POOL[idx].state.load(Ordering::SeqCst) != ST_FREE
                && POOL[idx].state.load(Ordering::SeqCst) != ST_REMOVED
            {
                *next_slot += 1;
                idx = base + (*next_slot % PER_MUT);
                tries += 1;
                if tries > PER_MUT {
                    return st;
                }
            }
            *next_slot += 1;
            let c = &POOL[idx];
            let gen = c.gen.load(Ordering::SeqCst) + 1;
            c.gen.store(gen, Ordering::SeqCst);
            c.state.store(ST_REGISTERING, Ordering::SeqCst);
            *tag_ctr += 1;
            let tag = ((m as u64 + 1) << 40) | *tag_ctr;
            c.tag.store(tag, Ordering::SeqCst);
            c.sig.store(s.sig as u32, Ordering::SeqCst);
            c.in_progress.store(0, Ordering::SeqCst);
            c.runs.store(0, Ordering::SeqCst);
            c.removed.store(0, Ordering::SeqCst);
            c.drops.store(0, Ordering::SeqCst);
            c.drop_tid.store(0, Ordering::SeqCst);
            c.drop_depth.store(0, Ordering::SeqCst);
            c.reg_ret_tick.store(0, Ordering::SeqCst);
            let guard = Guard { idx, gen, spin: if cfg.owner_mode && cfg.phase != "istep" && rng.chance(1, 24) { SLOW_ACTION } else { (rng.below(4) * 40) as u32 } };
            evlog::log(kind::CALL, 1 | ((s.sig as u64) << 8), tag);
            step_arm(cfg, &mut *step_rng.borrow_mut(), 1, s.sig);
            let res = if rng.chance(1, 2) {
                unsafe { signal_hook_registry::register(s.sig, move || guard.run(None)) }
            } else {
                unsafe {
                    signal_hook_registry::register_sigaction(s.sig, move |i: &libc::siginfo_t| {
                        guard.run(Some(i.si_signo))
                    })
                }
            };
            step_disarm(cfg, 1);
            evlog::log(kind::RET, 1 | ((s.sig as u64) << 8), res.is_ok() as u64);
            director::lib_exit();
            match res {
                Ok(id) => {
                    c.reg_ret_tick.store(evlog::tick(), Ordering::SeqCst);
                    c.state.store(ST_REGISTERED, Ordering::SeqCst);
                    live.push_back(Live { idx, id, sig: s.sig, tag });
                    st.registers += 1;
                }
                Err(e) => {
                    emit_violation("C05", "register-failed", &format!("register({}) failed: {}", s.sig, e));
                    c.state.store(ST_REMOVED, Ordering::SeqCst);
                }
            }
        } else if is_clearer && choice >= 92 {
            // ---- unregister_signal on a shared signal
            let s = *rng.pick(&my_sigs);
            CLEAR_BEGUN[s.sig as usize].fetch_add(1, Ordering::SeqCst);
            let t0 = evlog::tick();
            #[allow(deprecated)]
            let _ = signal_hook_registry::unregister_signal(s.sig);
            director::lib_exit();
            // verify every canary of that signal whose registration had returned before t0
            for (idx, c) in POOL.iter().enumerate() {
                if c.state.load(Ordering::SeqCst) != ST_REGISTERED
                    || c.sig.load(Ordering::SeqCst) != s.sig as u32
                {
                    continue;
                }
                let g0 = c.gen.load(Ordering::SeqCst);
                let rt = c.reg_ret_tick.load(Ordering::SeqCst);
                if rt == 0 || rt >= t0 {
                    continue;
                }
                let inflight = c.in_progress.load(Ordering::SeqCst);
                let drops = c.drops.load(Ordering::SeqCst);
                let stt = c.state.load(Ordering::SeqCst);
                if c.gen.load(Ordering::SeqCst) != g0 || stt != ST_REGISTERED {
                    continue;
                }
                if inflight != 0 {
                    violation(V_IN_FLIGHT, idx, inflight as usize, 77);
                }
                if drops != 1 {
                    violation(V_DROPS, idx, drops as usize, 77);
                }
            }
            CLEAR_DONE[s.sig as usize].fetch_add(1, Ordering::SeqCst);
            st.clears += 1;
        } else if cfg.owner_mode && choice >= 94 && !live.is_empty() {
            // ---- owner clears its own signal
            let s = my_sigs[0];
            evlog::log(kind::CALL, 3 | ((s.sig as u64) << 8), 0);
            step_arm(cfg, &mut *step_rng.borrow_mut(), 3, s.sig);
            #[allow(deprecated)]
            let r = signal_hook_registry::unregister_signal(s.sig);
            step_disarm(cfg, 3);
            evlog::log(kind::RET, 3 | ((s.sig as u64) << 8), r as u64);
            director::lib_exit();
            if !r {
                violation(V_DROPS, 0, 97, 0);
            }
            for l in live.drain(..) {
                check_removed(l.idx, Some(my_tid));
            }
            st.clears += 1;
        } else if !cfg.owner_mode && !cfg.shared_log && m == 1 && choice >= 90 {
            // ---- own a Signals instance for a while, then drop it (removal by owner drop)
            let s = cfg.sigs[0].sig;
            IT_GONE[s as usize].store(0, Ordering::SeqCst);
            if let Ok(mut sigs) = signal_hook::iterator::Signals::new([s]) {
                for _ in 0..rng.below(200) {
                    std::hint::spin_loop();
                }
                let _n = sigs.pending().count();
                drop(sigs);
                IT_GONE[s as usize].store(1, Ordering::SeqCst);
                st.it_cycles += 1;
            }
            director::lib_exit();
        } else if let Some(l) = if rng.chance(1, 2) { live.pop_front() } else { live.pop_back() } {
            // ---- unregister oldest/newest
            for _ in 0..rng.below(300) {
                std::hint::spin_loop();
            }
            remove_one(l, &mut st);
        }
    }
    // cleanup: remove everything that is still live
    while let Some(l) = live.pop_front() {
        remove_one(l, &mut st);
    }
    st
}

// ------------------------------------------------------------------------------------------
// Offline checker for owner mode (C02)

#[derive(Default)]
struct C02Stats {
    brackets: u64,
    nontrivial: u64,
    nested_brackets: u64,
    distinct: HashSet<u64>,
    samples: Vec<J>,
    violations: Vec<String>,
    max_run: usize,
}

fn check_owner_log(evs: &[evlog::Ev], init_state: &HashMap<u64, Vec<u64>>, st: &mut C02Stats) {
    // per-signal op list: (call stamp, ret stamp, resulting state)
    struct SigHist {
        // states[k] = state after k ops; calls[k], rets[k] = stamps of op k+1
        states: Vec<Vec<u64>>,
        calls: Vec<usize>,
        rets: Vec<usize>,
        open: Option<(usize, u64, u64)>, // call stamp, op, arg
    }
    let mut hist: HashMap<u64, SigHist> = HashMap::new();
    for (stamp, e) in evs.iter().enumerate() {
        if e.kind == kind::CALL || e.kind == kind::RET {
            let op = e.a & 0xff;
            let sig = e.a >> 8;
            let h = hist.entry(sig).or_insert_with(|| SigHist {
                states: vec![init_state.get(&sig).cloned().unwrap_or_default()],
                calls: vec![],
                rets: vec![],
                open: None,
            });
            if e.kind == kind::CALL {
                h.open = Some((stamp, op, e.b));
            } else if let Some((cs, op, arg)) = h.open.take() {
                let mut s = h.states.last().unwrap().clone();
                match op {
                    1 => {
                        if e.b == 1 {
                            s.push(arg);
                        }
                    }
                    2 => {
                        if e.b == 1 {
                            s.retain(|t| *t != arg);
                        }
                    }
                    3 => {
                        s.clear();
                    }
                    _ => {}
                }
                h.states.push(s);
                h.calls.push(cs);
                h.rets.push(stamp);
            }
        }
    }
    // per-thread bracket stacks
    struct Br {
        sig: u64,
        enter: usize,
        run: Vec<u64>,
        nested: bool,
    }
    let mut stacks: HashMap<u32, Vec<Br>> = HashMap::new();
    for (stamp, e) in evs.iter().enumerate() {
        if e.kind == site::DISPATCH_ENTER {
            let stck = stacks.entry(e.tid).or_default();
            let nested = !stck.is_empty();
            stck.push(Br { sig: e.a, enter: stamp, run: vec![], nested });
        } else if e.kind == kind::ACT_BEGIN {
            let stck = stacks.entry(e.tid).or_default();
            match stck.last_mut() {
                Some(b) => b.run.push(e.a),
                None => st.violations.push(format!("action tag {:#x} ran outside any dispatch bracket (tid {})", e.a, e.tid)),
            }
        } else if e.kind == site::DISPATCH_EXIT {
            let stck = stacks.entry(e.tid).or_default();
            let b = match stck.pop() {
                Some(b) => b,
                None => continue, // bracket began before the log was enabled
            };
            if b.sig != e.a {
                st.violations.push(format!("bracket mismatch enter sig {} exit sig {}", b.sig, e.a));
                continue;
            }
            st.brackets += 1;
            if b.nested {
                st.nested_brackets += 1;
            }
            st.max_run = st.max_run.max(b.run.len());
            let (enter, exit) = (b.enter, stamp);
            let h = match hist.get(&b.sig) {
                Some(h) => h,
                None => {
                    // No op on this signal in this round: the state is the initial one.
                    let init = init_state.get(&b.sig).cloned().unwrap_or_default();
                    if b.run != init {
                        st.violations.push(format!(
                            "sig {} bracket [{}..{}] ran {:x?}, but the only state current was {:x?}",
                            b.sig, enter, exit, b.run, init
                        ));
                    }
                    continue;
                }
            };
            // candidate states: S_j for j in 0..=n ; S_j may be current from calls[j-1] (j>0) to rets[j] (j<n)
            let n = h.calls.len();
            let mut cands: Vec<usize> = Vec::new();
            for j in 0..=n {
                let from = if j == 0 { 0 } else { h.calls[j - 1] };
                let until = if j == n { usize::MAX } else { h.rets[j] };
                // an op still open at the end of the log also opens its result state
                if from < exit && until > enter {
                    cands.push(j);
                }
            }
            // an open (unfinished) op: its possible result is unknown -> accept old state or old+arg / old-arg
            let mut extra: Vec<Vec<u64>> = Vec::new();
            if let Some((cs, op, arg)) = h.open {
                if cs < exit {
                    let mut s = h.states.last().unwrap().clone();
                    match op {
                        1 => s.push(arg),
                        2 => s.retain(|t| *t != arg),
                        3 => s.clear(),
                        _ => {}
                    }
                    extra.push(s);
                }
            }
            let chosen = cands.iter().position(|j| h.states[*j] == b.run);
            let ok = chosen.is_some() || extra.iter().any(|s| *s == b.run);
            if !ok {
                let cs: Vec<&Vec<u64>> = cands.iter().map(|j| &h.states[*j]).collect();
                st.violations.push(format!(
                    "sig {} bracket [{}..{}] tid {} ran {:x?}; candidate states {:x?}",
                    b.sig, enter, exit, e.tid, b.run, cs
                ));
            }
            let distinct_cands: HashSet<&Vec<u64>> = cands.iter().map(|j| &h.states[*j]).collect();
            if distinct_cands.len() > 1 {
                st.nontrivial += 1;
                let key = (b.sig << 48)
                    ^ ((distinct_cands.len() as u64) << 40)
                    ^ ((chosen.unwrap_or(99) as u64) << 32)
                    ^ ((b.run.len() as u64) << 24)
                    ^ ((b.nested as u64) << 20)
                    ^ (cands.len() as u64);
                if st.distinct.insert(key) && st.samples.len() < 6 {
                    st.samples.push(
                        J::obj()
                            .set("sig", J::u(b.sig))
                            .set("bracket", J::arr([J::u(enter as u64), J::u(exit as u64)]))
                            .set("tid", J::u(e.tid as u64))
                            .set("ran", J::arr(b.run.iter().map(|t| J::s(&format!("{:x}", t)))))
                            .set(
                                "candidates",
                                J::arr(cands.iter().map(|j| J::arr(h.states[*j].iter().map(|t| J::s(&format!("{:x}", t)))))),
                            )
                            .set("nested", J::Bool(b.nested)),
                    );
                }
            }
        }
    }
}

/// Several mutators per signal: the state sequence is not known, but every action has one owner thread that
/// registers and unregisters it, so per bracket: nothing twice, nothing of another signal, an action whose
/// registration had returned before the bracket began and whose removal had not been called before it ended must
/// run, one whose removal had returned before it began or whose registration was called after it ended must not,
/// and two actions whose registrations are ordered in real time run in that order.
fn check_shared_log(evs: &[evlog::Ev], st: &mut C02Stats) {
    #[derive(Clone, Copy)]
    struct Life {
        sig: u64,
        reg_call: usize,
        reg_ret: usize,
        unreg_call: usize,
        unreg_ret: usize,
    }
    let mut life: HashMap<u64, Life> = HashMap::new();
    let mut open: HashMap<u32, (usize, u64, u64, u64)> = HashMap::new(); // tid -> (call stamp, op, sig, tag)
    for (stamp, e) in evs.iter().enumerate() {
        if e.kind == kind::CALL {
            open.insert(e.tid, (stamp, e.a & 0xff, e.a >> 8, e.b));
        } else if e.kind == kind::RET {
            if let Some((cs, op, sig, tag)) = open.remove(&e.tid) {
                if op == 1 && e.b == 1 {
                    life.insert(tag, Life { sig, reg_call: cs, reg_ret: stamp, unreg_call: usize::MAX, unreg_ret: usize::MAX });
                } else if op == 2 {
                    if let Some(l) = life.get_mut(&tag) {
                        l.unreg_call = cs;
                        l.unreg_ret = stamp;
                    }
                }
            }
        }
    }
    // operations still open at the end of the log: their call stamp counts, their return is unknown
    for (_tid, (cs, op, sig, tag)) in open.iter() {
        if *op == 1 {
            life.entry(*tag).or_insert(Life { sig: *sig, reg_call: *cs, reg_ret: usize::MAX, unreg_call: usize::MAX, unreg_ret: usize::MAX });
        } else if *op == 2 {
            if let Some(l) = life.get_mut(tag) {
                l.unreg_call = *cs;
            }
        }
    }
    let mut by_sig: HashMap<u64, Vec<u64>> = HashMap::new();
    for (t, l) in life.iter() {
        by_sig.entry(l.sig).or_default().push(*t);
    }
    let mut stacks: HashMap<u32, Vec<(u64, usize, Vec<u64>)>> = HashMap::new();
    for (stamp, e) in evs.iter().enumerate() {
        if e.kind == site::DISPATCH_ENTER {
            stacks.entry(e.tid).or_default().push((e.a, stamp, vec![]));
        } else if e.kind == kind::ACT_BEGIN {
            if let Some(b) = stacks.entry(e.tid).or_default().last_mut() {
                b.2.push(e.a);
            }
        } else if e.kind == site::DISPATCH_EXIT {
            let (sig, enter, run) = match stacks.entry(e.tid).or_default().pop() {
                Some(b) => b,
                None => continue,
            };
            let exit = stamp;
            st.brackets += 1;
            st.max_run = st.max_run.max(run.len());
            let mut seen = HashSet::new();
            for t in run.iter() {
                if !seen.insert(*t) {
                    st.violations.push(format!("sig {} bracket [{}..{}] ran action {:x} twice: {:x?}", sig, enter, exit, t, run));
                }
                match life.get(t) {
                    Some(l) => {
                        if l.sig != sig {
                            st.violations.push(format!("sig {} bracket [{}..{}] ran action {:x} that was registered for signal {}", sig, enter, exit, t, l.sig));
                        }
                        if l.unreg_ret < enter {
                            st.violations.push(format!("sig {} bracket [{}..{}] ran action {:x} whose removal had returned at stamp {}", sig, enter, exit, t, l.unreg_ret));
                        }
                        if l.reg_call > exit {
                            st.violations.push(format!("sig {} bracket [{}..{}] ran action {:x} whose registration was only called at stamp {}", sig, enter, exit, t, l.reg_call));
                        }
                    }
                    None => {} // registered in an earlier round and already removed: covered by the canaries
                }
            }
            let mut overlapping = 0;
            if let Some(tags) = by_sig.get(&sig) {
                for t in tags.iter() {
                    let l = life[t];
                    if l.reg_ret < enter && l.unreg_call > exit && !seen.contains(t) {
                        st.violations.push(format!(
                            "sig {} bracket [{}..{}] did not run action {:x} although its registration had returned (stamp {}) and its removal had not been called (stamp {:?}); ran {:x?}",
                            sig, enter, exit, t, l.reg_ret, if l.unreg_call == usize::MAX { None } else { Some(l.unreg_call) }, run
                        ));
                    }
                    if (l.reg_call < exit && l.reg_ret > enter) || (l.unreg_call < exit && l.unreg_ret > enter) {
                        overlapping += 1;
                    }
                }
            }
            for w in run.windows(2) {
                if let (Some(x), Some(y)) = (life.get(&w[0]), life.get(&w[1])) {
                    if y.reg_ret < x.reg_call {
                        st.violations.push(format!(
                            "sig {} bracket [{}..{}]: action {:x} ran before {:x} although {:x}'s registration had returned (stamp {}) before {:x}'s was called (stamp {})",
                            sig, enter, exit, w[0], w[1], w[1], y.reg_ret, w[0], x.reg_call
                        ));
                    }
                }
            }
            if overlapping > 0 {
                st.nontrivial += 1;
                let owners: HashSet<u64> = run.iter().map(|t| t >> 40).collect();
                let key = (sig << 48) ^ ((overlapping.min(7) as u64) << 40) ^ ((run.len() as u64) << 32) ^ ((owners.len() as u64) << 28);
                if st.distinct.insert(key) && st.samples.len() < 6 {
                    st.samples.push(
                        J::obj()
                            .set("sig", J::u(sig))
                            .set("bracket", J::arr([J::u(enter as u64), J::u(exit as u64)]))
                            .set("ran", J::arr(run.iter().map(|t| J::s(&format!("{:x}", t)))))
                            .set("mutators_owning_the_actions_run", J::u(owners.len() as u64))
                            .set("operations_overlapping_the_bracket", J::u(overlapping as u64)),
                    );
                }
            }
        }
    }
}

pub fn main(args: &[String]) -> i32 {
    let seed = arg_u64(args, "--seed", 1);
    let owner_mode = arg_str(args, "--mode", "stress") == "owner";
    let shared_log = arg_str(args, "--mode", "stress") == "sharedlog";
    let phase = arg_str(args, "--phase", "none").to_string();
    let rtmin = crate::sig::rtmin();
    let all_sigs = vec![
        SigSpec { sig: libc::SIGUSR1, queued: false },
        SigSpec { sig: rtmin + 1, queued: true },
        SigSpec { sig: libc::SIGUSR2, queued: false },
        SigSpec { sig: rtmin + 2, queued: true },
    ];
    let nsigs = arg_u64(args, "--sigs", if owner_mode { 3 } else { 2 }) as usize;
    let cfg = Cfg {
        seed,
        owner_mode,
        shared_log,
        phase: phase.clone(),
        rounds: arg_u64(args, "--rounds", 20),
        round_ms: arg_u64(args, "--round-ms", 100),
        mutators: if owner_mode { nsigs } else { arg_u64(args, "--mutators", 3) as usize },
        victims: arg_u64(args, "--victims", 5) as usize,
        killers: arg_u64(args, "--killers", 2) as usize,
        sigs: all_sigs[..nsigs].to_vec(),
        ops_per_round: arg_u64(args, "--ops", if owner_mode || shared_log { 60 } else { 0 }),
    };
    crate::set_thread(1, class::MAIN);
    director::seed_thread(seed);
    evlog::init(if owner_mode || shared_log { 4 << 20 } else { 1 << 16 });
    director::install();
    director::set_observer(Some(observer));
    if phase == "istep" {
        crate::istep::install();
    }
    director::COVER.store(true, Ordering::SeqCst);
    crate::ALLOC_WATCH.store(true, Ordering::SeqCst);
    LOG_ACTIONS.store(owner_mode || shared_log, Ordering::SeqCst);
    director::LOG_HOOKS.store(if owner_mode || shared_log { 1 } else { 0 }, Ordering::SeqCst);

    // Director phase
    let reader_sites = [site::HL_R_GEN, site::HL_R_INC, site::HL_R_PTR, site::D_BEFORE_ACTION, site::D_AFTER_DATA_READ, site::HL_R_CLOSE];
    let writer_sites = [
        site::HL_W_LOCKED, site::HL_W_ALLOC, site::HL_W_SWAPPED, site::HL_B_FIRST, site::HL_B_FLIP, site::HL_B_DONE,
        site::HL_W_FREE, site::HL_W_FREED, site::REG_CLONED, site::REG_BEFORE_PUBLISH, site::REG_DONE,
        site::UNREG_CLONED, site::UNREG_BEFORE_PUBLISH, site::UNREG_DONE,
    ];
    match phase.as_str() {
        "delay" => {
            for s in reader_sites.iter().chain(writer_sites.iter()) {
                director::set_rule(*s, RuleSpec { mode: mode::DELAY, p: 16384, max: 400, ..Default::default() });
            }
        }
        "raise" => {
            for s in writer_sites.iter().chain([site::HL_B_SPIN].iter()) {
                director::set_rule(
                    *s,
                    RuleSpec {
                        mode: mode::RAISE,
                        class_mask: class::MUTATOR,
                        ctx: ctx::OUTSIDE,
                        p: if *s == site::HL_B_SPIN { 2048 } else { 20000 },
                        arg: cfg.sigs[(*s as usize) % cfg.sigs.len()].sig as usize,
                        ..Default::default()
                    },
                );
            }
            for s in reader_sites.iter() {
                director::set_rule(*s, RuleSpec { mode: mode::DELAY, p: 8192, max: 200, ..Default::default() });
            }
        }
        _ => {}
    }

    // Let the library take every signal over before anything is sent (an unhandled signal
    // would kill the process); the disposition stays after the action is removed.
    for s in cfg.sigs.iter() {
        let id = unsafe { signal_hook_registry::register(s.sig, || ()) }.expect("initial register");
        assert!(signal_hook_registry::unregister(id));
    }
    director::lib_exit();

    let t_start = crate::now_ms();
    let mut total = MutStats { registers: 0, unregisters: 0, clears: 0, it_cycles: 0 };
    let mut sent_total = (0u64, 0u64);
    let mut c02 = C02Stats::default();
    let mut rounds_overflow = 0u64;
    let mut killer_pauses = 0u64;
    let mut next_slots = vec![0usize; cfg.mutators];
    let mut tag_ctrs = vec![0u64; cfg.mutators];
    let mut read_victim_results: Vec<(isize, i32)> = Vec::new();
    let init_state: HashMap<u64, Vec<u64>> = HashMap::new();

    for round in 0..cfg.rounds {
        evlog::reset();
        evlog::enable(owner_mode || shared_log);
        let stop_m = Arc::new(AtomicBool::new(false));
        let stop_k = Arc::new(AtomicBool::new(false));
        let stop_v = Arc::new(AtomicBool::new(false));
        let ops_done = Arc::new(AtomicU64::new(0));
        let done_m = Arc::new(AtomicU64::new(0));
        let exit_ok = Arc::new(AtomicBool::new(false));
        let nthreads = cfg.victims + cfg.mutators;
        let barrier = Arc::new(Barrier::new(nthreads + 1));
        director::N_THREADS.store((2 + nthreads) as u32, Ordering::SeqCst);
        let mut pipefd = [0i32; 2];
        unsafe { libc::pipe(pipefd.as_mut_ptr()) };
        let mut vjoins = Vec::new();
        for v in 0..cfg.victims {
            let stop_v = stop_v.clone();
            let barrier = barrier.clone();
            let rfd = pipefd[0];
            let seed = cfg.seed ^ (round << 16) ^ v as u64;
            vjoins.push(std::thread::spawn(move || {
                crate::set_thread(2 + v as u32, class::VICTIM);
                director::seed_thread(seed);
                pool::add_target(0);
                barrier.wait();
                let r = match v {
                    0 => {
                        pool::victim_sleep(&stop_v);
                        None
                    }
                    1 => Some(pool::victim_read(rfd)),
                    _ => {
                        pool::victim_spin(&stop_v);
                        None
                    }
                };
                director::flush_counts();
                r
            }));
        }
        let clearer_tid = 2 + cfg.victims as u32;
        let mut mjoins = Vec::new();
        for m in 0..cfg.mutators {
            let stop_m = stop_m.clone();
            let barrier = barrier.clone();
            let cfgc = cfg.clone();
            let mut ns = next_slots[m];
            let mut tc = tag_ctrs[m];
            let ops_done = ops_done.clone();
            let done_m = done_m.clone();
            let exit_ok = exit_ok.clone();
            mjoins.push(std::thread::spawn(move || {
                crate::set_thread(2 + cfgc.victims as u32 + m as u32, class::MUTATOR);
                director::seed_thread(cfgc.seed ^ (round << 24) ^ (m as u64 + 77));
                pool::add_target(1);
                barrier.wait();
                let st = mutator(m, &cfgc, &stop_m, round, clearer_tid, &mut ns, &mut tc, &ops_done);
                director::flush_counts();
                done_m.fetch_add(1, Ordering::SeqCst);
                // stay a valid signal target until the killers are gone
                while !exit_ok.load(Ordering::SeqCst) {
                    std::thread::yield_now();
                }
                (st, ns, tc)
            }));
        }
        barrier.wait();
        let mut kjoins = Vec::new();
        for k in 0..cfg.killers {
            let stop_k = stop_k.clone();
            let kc = KillerCfg { sigs: cfg.sigs.clone(), gap: if cfg.phase == "delay" { 400 } else { 60 }, mutator_share: 3, log_sends: false };
            let seed = cfg.seed ^ (round << 12) ^ (k as u64 + 1000);
            kjoins.push(std::thread::spawn(move || {
                crate::set_thread(60 + k as u32, class::KILLER);
                pool::killer_loop(&stop_k, &kc, seed)
            }));
        }
        // run
        let t0 = crate::now_ms();
        loop {
            std::thread::sleep(std::time::Duration::from_millis(2));
            let el = crate::now_ms() - t0;
            if cfg.ops_per_round > 0 {
                if ops_done.load(Ordering::Relaxed) >= cfg.ops_per_round * cfg.mutators as u64 || el > 20_000 {
                    break;
                }
            } else if el >= cfg.round_ms {
                break;
            }
            if evlog::OVERFLOW.load(Ordering::Relaxed) {
                break;
            }
        }
        stop_m.store(true, Ordering::SeqCst);
        let tw = crate::now_ms();
        while done_m.load(Ordering::SeqCst) < cfg.mutators as u64 {
            std::thread::sleep(std::time::Duration::from_millis(1));
            if crate::now_ms() - tw > 300 {
                // A writer can starve while deliveries overlap without a gap (see C18); give it one.
                pool::PAUSE_KILLERS.store(true, Ordering::SeqCst);
                killer_pauses += 1;
            }
            if crate::now_ms() - tw > 5_000 {
                if let Some(m) = director::delivery_stuck(&[]) {
                    emit_violation("C03", "dispatch-spins", &format!("{} (mode={} phase={} seed={})", m, if owner_mode { "owner" } else { "stress" }, phase, seed));
                    unsafe { libc::_exit(1) };
                }
            }
            if crate::now_ms() - tw > 60_000 {
                emit(&J::obj().set("type", J::s("inconclusive")).set("reason", J::s("mutators did not finish within 60 s")));
                std::process::exit(2);
            }
        }
        stop_k.store(true, Ordering::SeqCst);
        pool::PAUSE_KILLERS.store(false, Ordering::SeqCst);
        for j in kjoins {
            let (s, o) = j.join().unwrap();
            sent_total.0 += s;
            sent_total.1 += o;
        }
        exit_ok.store(true, Ordering::SeqCst);
        for (m, j) in mjoins.into_iter().enumerate() {
            let (st, ns, tc) = j.join().expect("mutator panicked");
            next_slots[m] = ns;
            tag_ctrs[m] = tc;
            total.registers += st.registers;
            total.unregisters += st.unregisters;
            total.clears += st.clears;
            total.it_cycles += st.it_cycles;
        }
        stop_v.store(true, Ordering::SeqCst);
        unsafe { libc::write(pipefd[1], b"x".as_ptr() as *const _, 1) };
        let tj = crate::now_ms();
        while !vjoins.iter().all(|j| j.is_finished()) {
            std::thread::sleep(std::time::Duration::from_millis(2));
            if crate::now_ms() - tj > 3_000 {
                // a victim does not come back: is it stuck inside a delivery?
                if let Some(m) = director::delivery_stuck(&[]) {
                    emit_violation("C03", "dispatch-spins", &format!("{} (mode={} phase={} seed={})", m, if owner_mode { "owner" } else { "stress" }, phase, seed));
                    unsafe { libc::_exit(1) };
                }
                if crate::now_ms() - tj > 60_000 {
                    emit(&J::obj().set("type", J::s("inconclusive")).set("reason", J::s("victim threads did not finish and are not inside a delivery")));
                    unsafe { libc::_exit(2) };
                }
            }
        }
        for j in vjoins {
            if let Some(r) = j.join().unwrap() {
                read_victim_results.push(r);
            }
        }
        unsafe {
            libc::close(pipefd[0]);
            libc::close(pipefd[1]);
        }
        pool::clear_targets();
        evlog::enable(false);

        // all canaries are removed now: deliveries must not run any of them
        let runs_before: u64 = ACTION_RUNS.load(Ordering::SeqCst)
            + POOL.iter().map(|c| c.runs.load(Ordering::SeqCst)).sum::<u64>();
        for s in cfg.sigs.iter() {
            if crate::sig::disposition(s.sig).map(|d| d.0) == Some(signal_hook_registry::verif::dispatcher_addr()) {
                unsafe { libc::raise(s.sig) };
            }
        }
        let runs_after: u64 = ACTION_RUNS.load(Ordering::SeqCst)
            + POOL.iter().map(|c| c.runs.load(Ordering::SeqCst)).sum::<u64>();
        if runs_after != runs_before {
            violation(V_RUN_AFTER_ALL_REMOVED, (runs_after - runs_before) as usize, round as usize, 0);
        }
        for c in POOL.iter() {
            let s = c.state.load(Ordering::SeqCst);
            if s == ST_REGISTERED || s == ST_REGISTERING {
                violation(V_DROPS, 0, 96, c.tag.load(Ordering::SeqCst) as usize);
            }
        }

        if owner_mode {
            if evlog::OVERFLOW.load(Ordering::SeqCst) {
                rounds_overflow += 1;
            } else {
                let evs = evlog::snapshot();
                check_owner_log(&evs, &init_state, &mut c02);
            }
        } else if shared_log {
            if evlog::OVERFLOW.load(Ordering::SeqCst) {
                rounds_overflow += 1;
            } else {
                let evs = evlog::snapshot();
                check_shared_log(&evs, &mut c02);
            }
        }
        if crate::VIOL_TOTAL.load(Ordering::SeqCst) > 0 || !c02.violations.is_empty() {
            break;
        }
    }
    director::flush_counts();
    director::uninstall();

    // ---- report
    let mut nviol = 0;
    for (code, a, b, c) in crate::violations() {
        let prop = if code == V_WRONG_SIGNAL { "C02" } else { "C01" };
        emit_violation(prop, vname(code), &format!("{} a={:#x} b={:#x} c={:#x} (mode={} phase={} seed={})", vname(code), a, b, c, if owner_mode { "owner" } else { "stress" }, phase, seed));
        nviol += 1;
    }
    for v in c02.violations.iter().take(5) {
        emit_violation("C02", if shared_log { "bracket-breaks-must-run-or-order-rule" } else { "bracket-matches-no-candidate-state" }, v);
        nviol += 1;
    }
    let ah = crate::ALLOC_IN_HANDLER.load(Ordering::SeqCst);
    let fh = crate::FREE_IN_HANDLER.load(Ordering::SeqCst);
    if ah + fh > 0 {
        emit_violation("C03", "heap-op-inside-dispatch", &format!("{} allocations and {} frees happened while a dispatcher was active (mode={} phase={} seed={})", ah, fh, if owner_mode { "owner" } else { "stress" }, phase, seed));
        nviol += 1;
    }
    for r in read_victim_results.iter() {
        if r.0 != 1 {
            emit_violation("C05", "blocking-read-interrupted", &format!("read() on a victim returned {} errno {} although SA_RESTART must restart it", r.0, r.1));
            nviol += 1;
        }
    }
    let pairs = director::overlap_pairs();
    let (evaluations, distinct_keys, samples): (u64, Vec<J>, Vec<J>) = if owner_mode || shared_log {
        (
            c02.brackets,
            c02.distinct.iter().map(|k| J::s(&format!("{:x}", k))).collect(),
            c02.samples.clone(),
        )
    } else {
        let mut keys: Vec<J> = pairs
            .iter()
            .filter(|(a, b)| {
                // reader-side site (half-lock read or dispatcher) against writer-side site
                let rd = |s: u32| s < 8 || (20..30).contains(&s);
                let wr = |s: u32| (8..20).contains(&s) || (30..40).contains(&s);
                rd(*a) && wr(*b)
            })
            .map(|(a, b)| J::s(&format!("{}|{}", director::site_name(*a), director::site_name(*b))))
            .collect();
        for (sname, _) in director::nested_at() {
            keys.push(J::s(&format!("nested@{}", director::site_name(sname))));
        }
        let mut samples: Vec<J> = CANARY_SAMPLES
            .lock()
            .unwrap()
            .iter()
            .map(|(tag, sig, rem, drops, dtid)| {
                J::s(&format!("unregister of action {:x} (signal {}) by thread {} after the action had run: in flight after return 0, released {} time(s), by thread {}, at handler depth 0", tag, sig, rem, drops, dtid))
            })
            .collect();
        samples.extend(keys.iter().take(6).cloned());
        (total.unregisters + total.clears + total.it_cycles, keys, samples)
    };
    let j = J::obj()
        .set("type", J::s("summary"))
        .set("workload", J::s("w_reg"))
        .set("evaluations", J::u(evaluations))
        .set("distinct_keys", J::Arr(distinct_keys))
        .set("samples", J::Arr(samples))
        .set("mode", J::s(if owner_mode { "owner" } else if shared_log { "sharedlog" } else { "stress" }))
        .set("phase", J::s(&phase))
        .set("istep_armed", J::u(STEP_ARMED.load(Ordering::SeqCst)))
        .set("istep_fired", J::u(STEP_FIRED.load(Ordering::SeqCst)))
        .set("istep_distinct_points", J::u(STEP_RIPS.lock().map(|g| g.as_ref().map(|h| h.len()).unwrap_or(0)).unwrap_or(0) as u64))
        .set("istep_traps", J::u(crate::istep::TOTAL_TRAPS.load(Ordering::SeqCst)))
        .set("seed", J::u(seed))
        .set("rounds", J::u(cfg.rounds))
        .set("registers", J::u(total.registers))
        .set("unregisters", J::u(total.unregisters))
        .set("unregister_signal_calls", J::u(total.clears))
        .set("signals_instances_dropped", J::u(total.it_cycles))
        .set("iterator_actions_seen", J::u(IT_STORED.load(Ordering::SeqCst)))
        .set("signals_sent", J::u(sent_total.1))
        .set("dispatches", J::u(director::DISPATCHES.load(Ordering::SeqCst)))
        .set("nested_dispatches", J::u(director::NESTED_DISPATCHES.load(Ordering::SeqCst)))
        .set("action_runs", J::u(POOL.iter().map(|c| c.runs.load(Ordering::SeqCst)).sum::<u64>()))
        .set("unregister_called_with_action_in_flight", J::u(OVERLAP_AT_UNREG.load(Ordering::SeqCst)))
        .set("max_hook_steps_per_dispatch", J::u(director::MAX_DISPATCH_STEPS.load(Ordering::SeqCst)))
        .set("alloc_in_handler", J::u(ah))
        .set("free_in_handler", J::u(fh))
        .set("overlap_pairs", J::u(pairs.len() as u64))
        .set(
            "nested_delivery_at_site",
            J::Obj(director::nested_at().iter().map(|(s, n)| (director::site_name(*s).to_string(), J::u(*n))).collect()),
        )
        .set("raise_fired", J::u(writer_sites.iter().map(|s| director::fired(*s)).sum::<u64>()))
        .set("restart_reads_checked", J::u(read_victim_results.len() as u64))
        .set("c02_brackets", J::u(c02.brackets))
        .set("c02_nontrivial_brackets", J::u(c02.nontrivial))
        .set("c02_nested_brackets", J::u(c02.nested_brackets))
        .set("c02_distinct", J::u(c02.distinct.len() as u64))
        .set("c02_max_run_len", J::u(c02.max_run as u64))
        .set("c02_rounds_overflowed", J::u(rounds_overflow))
        .set("rounds_where_killers_were_paused_ms", J::u(killer_pauses))
        .set("violations", J::u(nviol))
        .set("wall_ms", J::u(crate::now_ms() - t_start));
    emit(&j);
    if nviol > 0 {
        1
    } else {
        0
    }
}
