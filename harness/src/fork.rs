//! Forked probes: run a closure in a child process and report how it ended and what it wrote.

use std::io::Read;
use std::os::unix::io::FromRawFd;

#[derive(Debug, Clone, PartialEq, Eq)]
pub enum End {
    Exit(i32),
    Signal(i32, bool),
    Stopped(i32),
    Timeout,
    /// Every thread of the child sleeps in futex-wait without a timeout, on many consecutive samples: nothing inside the
    /// process can ever wake any of them (its memory is private since the fork) - a deadlock, not a slow run.
    Deadlocked(String),
}

pub struct ProbeResult {
    pub end: End,
    pub out: String,
}

/// Forks; the child runs `f(out_fd)` and `_exit`s with its return value. The parent must be
/// single-threaded. `timeout_ms` is a watchdog only: a `Timeout` result is inconclusive.
pub fn probe<F: FnOnce(i32) -> i32>(timeout_ms: u64, untraced: bool, f: F) -> ProbeResult {
    probe_ex(timeout_ms, untraced, false, f)
}

/// (number of threads, all of them in an untimed futex wait?)
fn all_threads_in_untimed_futex(pid: i32) -> (usize, bool) {
    let mut n = 0;
    let dir = match std::fs::read_dir(format!("/proc/{}/task", pid)) {
        Ok(d) => d,
        Err(_) => return (0, false),
    };
    for e in dir.flatten() {
        n += 1;
        let base = e.path();
        let stat = std::fs::read_to_string(base.join("stat")).unwrap_or_default();
        let state = stat.rfind(')').and_then(|i| stat[i + 1..].split_whitespace().next().map(|x| x.to_string())).unwrap_or_default();
        if state != "S" {
            return (n, false);
        }
        let sc = std::fs::read_to_string(base.join("syscall")).unwrap_or_default();
        let f: Vec<&str> = sc.split_whitespace().collect();
        // "202 uaddr op val timeout ..." : futex, FUTEX_WAIT* (op & 0x7f in {0, 9}), timeout pointer NULL
        if f.len() < 5 || f[0] != "202" {
            return (n, false);
        }
        let op = u64::from_str_radix(f[2].trim_start_matches("0x"), 16).unwrap_or(99) & 0x7f;
        let to = u64::from_str_radix(f[4].trim_start_matches("0x"), 16).unwrap_or(1);
        if !(op == 0 || op == 9) || to != 0 {
            return (n, false);
        }
    }
    (n, n > 0)
}

/// Like `probe`; with `detect_deadlock` the parent also watches for the deadlocked state (see `End::Deadlocked`).
pub fn probe_ex<F: FnOnce(i32) -> i32>(timeout_ms: u64, untraced: bool, detect_deadlock: bool, f: F) -> ProbeResult {
    let mut fds = [0i32; 2];
    unsafe {
        assert_eq!(0, libc::pipe(fds.as_mut_ptr()));
        let pid = libc::fork();
        assert!(pid >= 0, "fork failed");
        if pid == 0 {
            libc::prctl(libc::PR_SET_PDEATHSIG, libc::SIGKILL);
            libc::close(fds[0]);
            let code = match std::panic::catch_unwind(std::panic::AssertUnwindSafe(|| f(fds[1]))) {
                Ok(c) => c,
                Err(_) => 101,
            };
            libc::_exit(code);
        }
        libc::close(fds[1]);
        // Read output in non-blocking mode while polling for the child's end.
        let fl = libc::fcntl(fds[0], libc::F_GETFL);
        libc::fcntl(fds[0], libc::F_SETFL, fl | libc::O_NONBLOCK);
        let mut file = std::fs::File::from_raw_fd(fds[0]);
        let mut out = Vec::new();
        let start = crate::now_ms();
        let mut status = 0i32;
        let flags = libc::WNOHANG | if untraced { libc::WUNTRACED } else { 0 };
        let end;
        let mut sleep_us = 50;
        loop {
            let mut buf = [0u8; 4096];
            while let Ok(n) = file.read(&mut buf) {
                if n == 0 {
                    break;
                }
                out.extend_from_slice(&buf[..n]);
            }
            let r = libc::waitpid(pid, &mut status, flags);
            if r == pid {
                if libc::WIFEXITED(status) {
                    end = End::Exit(libc::WEXITSTATUS(status));
                } else if libc::WIFSIGNALED(status) {
                    end = End::Signal(libc::WTERMSIG(status), libc::WCOREDUMP(status));
                } else if libc::WIFSTOPPED(status) {
                    end = End::Stopped(libc::WSTOPSIG(status));
                    libc::kill(pid, libc::SIGKILL);
                    libc::waitpid(pid, &mut status, 0);
                } else {
                    end = End::Exit(-1);
                }
                break;
            }
            if detect_deadlock && crate::now_ms() - start > 200 && all_threads_in_untimed_futex(pid).1 {
                let out_len = out.len();
                let mut stable = true;
                let (n0, _) = all_threads_in_untimed_futex(pid);
                for _ in 0..15 {
                    libc::usleep(20_000);
                    let (n, all) = all_threads_in_untimed_futex(pid);
                    if !all || n != n0 {
                        stable = false;
                        break;
                    }
                }
                while let Ok(n) = file.read(&mut buf) {
                    if n == 0 {
                        break;
                    }
                    out.extend_from_slice(&buf[..n]);
                }
                if stable && out.len() == out_len && libc::waitpid(pid, &mut status, libc::WNOHANG) == 0 {
                    libc::kill(pid, libc::SIGKILL);
                    libc::waitpid(pid, &mut status, 0);
                    end = End::Deadlocked(format!("all {} thread(s) of the process sleep in futex-wait without timeout (16 samples, 300 ms)", n0));
                    break;
                }
            }
            if crate::now_ms() - start > timeout_ms {
                libc::kill(pid, libc::SIGKILL);
                libc::waitpid(pid, &mut status, 0);
                end = End::Timeout;
                break;
            }
            libc::usleep(sleep_us);
            if sleep_us < 2000 {
                sleep_us *= 2;
            }
        }
        let mut buf = [0u8; 4096];
        while let Ok(n) = file.read(&mut buf) {
            if n == 0 {
                break;
            }
            out.extend_from_slice(&buf[..n]);
        }
        ProbeResult { end, out: String::from_utf8_lossy(&out).into_owned() }
    }
}

/// Write a string to a raw fd (async-signal-safe apart from the formatting done by the caller).
pub fn wr(fd: i32, s: &str) {
    unsafe {
        let mut off = 0;
        let b = s.as_bytes();
        while off < b.len() {
            let n = libc::write(fd, b.as_ptr().add(off) as *const _, b.len() - off);
            if n <= 0 {
                break;
            }
            off += n as usize;
        }
    }
}
