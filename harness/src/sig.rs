//! Thin wrappers over the signal-related libc calls the workloads need.

use libc::{c_int, c_void, siginfo_t};

pub fn rtmin() -> c_int {
    libc::SIGRTMIN()
}

pub fn gettid() -> i32 {
    unsafe { libc::syscall(libc::SYS_gettid) as i32 }
}

/// Queue `sig` with payload `val` to the calling thread. If the signal is not blocked, the
/// kernel delivers it before this returns.
pub fn queue_self(sig: c_int, val: usize) -> c_int {
    unsafe {
        libc::pthread_sigqueue(
            libc::pthread_self(),
            sig,
            libc::sigval {
                sival_ptr: val as *mut c_void,
            },
        )
    }
}

pub fn queue_thread(th: libc::pthread_t, sig: c_int, val: usize) -> c_int {
    unsafe {
        libc::pthread_sigqueue(
            th,
            sig,
            libc::sigval {
                sival_ptr: val as *mut c_void,
            },
        )
    }
}

pub fn kill_thread(th: libc::pthread_t, sig: c_int) -> c_int {
    unsafe { libc::pthread_kill(th, sig) }
}

/// The `si_value` payload of a queued signal.
pub fn si_value(info: &siginfo_t) -> usize {
    unsafe { info.si_value().sival_ptr as usize }
}

pub fn si_code(info: &siginfo_t) -> c_int {
    info.si_code
}

/// Current disposition of `sig`: (handler address, flags).
pub fn disposition(sig: c_int) -> Option<(usize, c_int)> {
    unsafe {
        let mut old: libc::sigaction = std::mem::zeroed();
        if libc::sigaction(sig, std::ptr::null(), &mut old) != 0 {
            return None;
        }
        Some((old.sa_sigaction, old.sa_flags))
    }
}

/// Installs a foreign handler directly with sigaction (bypassing the library).
pub unsafe fn install_raw(sig: c_int, handler: usize, flags: c_int) -> c_int {
    let mut new: libc::sigaction = std::mem::zeroed();
    new.sa_sigaction = handler;
    new.sa_flags = flags;
    libc::sigemptyset(&mut new.sa_mask);
    libc::sigaction(sig, &new, std::ptr::null_mut())
}

pub fn block(sig: c_int, how: c_int) {
    unsafe {
        let mut set: libc::sigset_t = std::mem::zeroed();
        libc::sigemptyset(&mut set);
        libc::sigaddset(&mut set, sig);
        libc::pthread_sigmask(how, &set, std::ptr::null_mut());
    }
}

pub fn is_pending(sig: c_int) -> bool {
    unsafe {
        let mut set: libc::sigset_t = std::mem::zeroed();
        libc::sigemptyset(&mut set);
        libc::sigpending(&mut set);
        libc::sigismember(&set, sig) == 1
    }
}

/// Number of bytes readable on fd (FIONREAD), or -1.
pub fn fionread(fd: c_int) -> i64 {
    let mut n: c_int = 0;
    let rc = unsafe { libc::ioctl(fd, libc::FIONREAD, &mut n) };
    if rc != 0 {
        -1
    } else {
        n as i64
    }
}

pub fn fd_open(fd: c_int) -> bool {
    unsafe { libc::fcntl(fd, libc::F_GETFD) != -1 }
}

/// Sorted list of open fds of this process.
pub fn open_fds() -> Vec<c_int> {
    let mut v = Vec::new();
    if let Ok(rd) = std::fs::read_dir("/proc/self/fd") {
        let names: Vec<String> = rd
            .filter_map(|e| e.ok())
            .filter_map(|e| e.file_name().into_string().ok())
            .collect();
        for n in names {
            if let Ok(fd) = n.parse::<c_int>() {
                if fd_open(fd) {
                    v.push(fd);
                }
            }
        }
    }
    v.sort();
    v
}

/// (used, limit) of the user's pending-signal quota, from /proc/self/status "SigQ:".
pub fn sigq_usage() -> Option<(u64, u64)> {
    let st = std::fs::read_to_string("/proc/self/status").ok()?;
    let l = st.lines().find(|l| l.starts_with("SigQ:"))?;
    let mut it = l[5..].trim().split('/');
    Some((it.next()?.parse().ok()?, it.next()?.parse().ok()?))
}

/// si_code of a signal sent with sigqueue / pthread_sigqueue.
pub const SI_QUEUE: c_int = -1;

/// Whether this execution environment lets a process install a handler for `n` (the kernel does for 1..=64 except
/// KILL, STOP and the two signals glibc keeps for itself; valgrind additionally keeps the highest real-time signal).
pub fn settable(n: c_int) -> bool {
    if !(1..=64).contains(&n) || n == libc::SIGKILL || n == libc::SIGSTOP || n == 32 || n == 33 {
        return false;
    }
    unsafe {
        let mut old: libc::sigaction = std::mem::zeroed();
        if libc::sigaction(n, std::ptr::null(), &mut old) != 0 {
            return false;
        }
        // a real handler must be accepted as well (valgrind answers the query and accepts SIG_DFL for its reserved
        // signal, but refuses a handler): install a no-op one for an instant, then put the old disposition back
        extern "C" fn nop(_s: c_int) {}
        let mut new: libc::sigaction = std::mem::zeroed();
        new.sa_sigaction = nop as usize;
        libc::sigemptyset(&mut new.sa_mask);
        if libc::sigaction(n, &new, std::ptr::null_mut()) != 0 {
            return false;
        }
        libc::sigaction(n, &old, std::ptr::null_mut()) == 0
    }
}
