//! w_origin: reported origin against the kernel's facts (C17).
//!
//! Part 1 (synthetic, complete grid): hand-built siginfo records, si_signo 1..64 x si_code in
//! [-70, 200] + {0x80}, union filled with a poison pattern, checked against a table written from
//! signal(7)/sigaction(2).
//! Part 2 (real): every sending mechanism available here, in forked children, through
//! SignalsInfo<WithOrigin> and by Origin::extract on the raw record; ground truth = how the
//! harness sent it + the libc accessors on the same raw record.

use std::sync::atomic::{AtomicU64, Ordering};

use libc::{c_int, siginfo_t};
use signal_hook::iterator::exfiltrator::{WithOrigin, WithRawSiginfo};
use signal_hook::iterator::SignalsInfo;
use signal_hook::low_level::siginfo::{Cause, Chld, Origin, Sent};

use crate::fork::{self, End};
use crate::jsonw::{emit, emit_violation, J};
use crate::arg_u64;

extern "C" {
    fn sigqueue(pid: libc::pid_t, sig: c_int, value: libc::sigval) -> c_int;
    fn setitimer(which: c_int, new: *const libc::itimerval, old: *mut libc::itimerval) -> c_int;
}

#[repr(C)]
#[derive(Clone, Copy)]
struct RawInfo {
    si_signo: c_int,
    si_errno: c_int,
    si_code: c_int,
    _pad: c_int,
    pid: c_int,
    uid: u32,
    rest: [u8; 104],
}

fn table(signo: c_int, code: c_int) -> (Cause, bool) {
    match code {
        0x80 => (Cause::Kernel, false),
        0 => (Cause::Sent(Sent::User), true),
        -6 => (Cause::Sent(Sent::TKill), true),
        -1 => (Cause::Sent(Sent::Queue), true),
        -3 => (Cause::Sent(Sent::MesgQ), true),
        1..=6 if signo == libc::SIGCHLD => (
            Cause::Chld(match code {
                1 => Chld::Exited,
                2 => Chld::Killed,
                3 => Chld::Dumped,
                4 => Chld::Trapped,
                5 => Chld::Stopped,
                _ => Chld::Continued,
            }),
            true,
        ),
        _ => (Cause::Unknown, false),
    }
}

fn synthetic(bad: &mut Vec<(String, String)>, keys: &mut std::collections::HashSet<String>) -> u64 {
    let mut n = 0;
    let mut codes: Vec<c_int> = (-70..=200).collect();
    codes.push(0x80);
    for signo in 1..=64 {
        for code in codes.iter().cloned() {
          // besides an arbitrary sender also the legitimate zero values (e.g. root outside the pid namespace)
          for variant in 0..4 {
            let (pid, uid) = match variant {
                0 => (0x1234_0000 + signo * 7 + (code & 0xff), 0x0bad_0000u32 + (code as u32 & 0xfff)),
                1 => (0, 0),
                2 => (0, 1000),
                _ => (4321, 0),
            };
            let raw = RawInfo { si_signo: signo, si_errno: 0x5a5a, si_code: code, _pad: 0x6b6b6b6b, pid, uid, rest: [0xA5; 104] };
            let info: siginfo_t = unsafe { std::mem::transmute(raw) };
            let o = unsafe { Origin::extract(&info) };
            let (cause, has_proc) = table(signo, code);
            n += 1;
            let label = format!("si_signo={} si_code={}", signo, code);
            if o.signal != signo {
                bad.push(("synthetic-signal-number".into(), format!("{}: origin.signal = {}", label, o.signal)));
            }
            if o.cause != cause {
                bad.push((format!("synthetic-cause-code{}", code), format!("{}: cause {:?}, expected {:?}", label, o.cause, cause)));
            }
            match (o.process, has_proc) {
                (Some(p), true) => {
                    if p.pid != pid || p.uid != uid {
                        bad.push(("synthetic-pid-uid".into(), format!("{}: process {:?}, the record holds pid {} uid {}", label, p, pid, uid)));
                    }
                }
                (None, false) => {}
                (Some(p), false) => bad.push((format!("synthetic-process-reported-code{}", code), format!("{}: process {:?} reported although the kernel supplies none for this code", label, p))),
                (None, true) => bad.push((format!("synthetic-process-missing-code{}", code), format!("{}: no process reported although the kernel supplies one", label))),
            }
            keys.insert(format!("syn:{}:{:?}:{}", if signo == libc::SIGCHLD { "chld" } else { "other" }, (code, cause), variant));
          }
        }
    }
    n
}

struct SpinBarrier(std::sync::atomic::AtomicUsize);

impl SpinBarrier {
    fn wait(&self) {
        self.0.fetch_add(1, Ordering::SeqCst);
        while self.0.load(Ordering::SeqCst) < 4 {
            std::hint::spin_loop();
        }
    }
}

fn synth(signo: c_int, code: c_int, pid: c_int, uid: u32) -> siginfo_t {
    let raw = RawInfo { si_signo: signo, si_errno: 0, si_code: code, _pad: 0, pid, uid, rest: [0x5A; 104] };
    unsafe { std::mem::transmute(raw) }
}

static NESTED_BAD: AtomicU64 = AtomicU64::new(0);
static NESTED_RUNS: AtomicU64 = AtomicU64::new(0);

/// Extractions that overlap in time (several threads; a handler that interrupts an extraction on its own thread):
/// each one must report the pid/uid of its own record.
fn overlapping_child(fd: i32) -> i32 {
    use crate::fork::wr;
    let stop = std::sync::Arc::new(std::sync::atomic::AtomicBool::new(false));
    // a handler on the extracting threads that extracts another record (SI_USER, its own pid/uid)
    let nested = synth(libc::SIGUSR2, 0, 777_777, 888_888);
    unsafe {
        signal_hook_registry::register(libc::SIGUSR2, move || {
            let o = Origin::extract(&nested);
            NESTED_RUNS.fetch_add(1, Ordering::SeqCst);
            if o.process.map(|p| (p.pid, p.uid)) != Some((777_777, 888_888)) {
                NESTED_BAD.fetch_add(1, Ordering::SeqCst);
            }
        })
        .expect("register");
    }
    let mut js = Vec::new();
    let pths = std::sync::Arc::new(std::sync::Mutex::new(Vec::new()));
    for t in 0..4i32 {
        let (stop, pths) = (stop.clone(), pths.clone());
        js.push(std::thread::spawn(move || {
            pths.lock().unwrap().push(unsafe { libc::pthread_self() } as usize);
            let (pid, uid) = (10_000 + t, 20_000 + t as u32);
            // SI_USER, SI_QUEUE, SI_TKILL and a child record: all carry a process
            let kinds = [(libc::SIGUSR1, 0), (libc::SIGUSR1, -1), (libc::SIGHUP, -6), (libc::SIGCHLD, 1), (libc::SIGCHLD, 2), (libc::SIGALRM, 0x80)];
            let recs: Vec<siginfo_t> = kinds.iter().map(|(sg, code)| synth(*sg, *code, pid, uid)).collect();
            let want: Vec<(Cause, bool)> = kinds.iter().map(|(sg, code)| table(*sg, *code)).collect();
            let (mut n, mut wrong) = (0u64, Vec::new());
            while !stop.load(Ordering::Relaxed) && n < 200_000_000 {
                let i = ((n + t as u64) % kinds.len() as u64) as usize;
                let o = unsafe { Origin::extract(&recs[i]) };
                n += 1;
                let proc_ok = match (o.process, want[i].1) {
                    (Some(p), true) => p.pid == pid && p.uid == uid,
                    (None, false) => true,
                    _ => false,
                };
                if !proc_ok || o.cause != want[i].0 || o.signal != kinds[i].0 {
                    if wrong.len() < 2 {
                        wrong.push(format!("thread {} extracted signal {} cause {:?} process {:?} from a record with si_signo={} si_code={} pid {} uid {} (expected cause {:?})", t, o.signal, o.cause, o.process, kinds[i].0, kinds[i].1, pid, uid, want[i].0));
                    }
                }
            }
            (n, wrong)
        }));
    }
    // paced: one thread-directed SIGUSR2 every ~40 us, round robin (standard signal: at most one pending per thread)
    let t0 = crate::now_ms();
    let mut sent = 0u64;
    while crate::now_ms() - t0 < 1500 {
        let v = pths.lock().unwrap().clone();
        if !v.is_empty() {
            crate::sig::kill_thread(v[(sent as usize) % v.len()] as libc::pthread_t, libc::SIGUSR2);
            sent += 1;
        }
        for _ in 0..4000 {
            std::hint::spin_loop();
        }
    }
    stop.store(true, Ordering::SeqCst);
    let mut total = 0;
    for j in js {
        if let Ok((n, wrong)) = j.join() {
            total += n;
            for w in wrong {
                wr(fd, &format!("BAD overlap: {}\n", w));
            }
        }
    }
    if NESTED_BAD.load(Ordering::SeqCst) > 0 {
        wr(fd, &format!("BAD overlap: {} of {} extractions done inside a handler (which interrupted an extraction on the same thread) reported a foreign pid/uid\n", NESTED_BAD.load(Ordering::SeqCst), NESTED_RUNS.load(Ordering::SeqCst)));
    }
    wr(fd, &format!("OVERLAP extractions={} nested={}\n", total, NESTED_RUNS.load(Ordering::SeqCst)));
    wr(fd, "DONE\n");
    0
}

static DUMMY: AtomicU64 = AtomicU64::new(0);

#[derive(Clone, Copy, Debug)]
enum Mech {
    Kill,
    Raise,
    Tgkill,
    Sigqueue,
    ChildExit,
    ChildKilled,
    ChildStopCont,
    KillFromChild,
    Itimer,
    PosixTimer,
    Sigpipe,
}

/// Runs in a forked child: sets up both iterators, triggers the mechanism, writes what came out.
fn real_child(m: Mech, sig: c_int, fd: i32) -> i32 {
    use fork::wr;
    // history before the iterators exist: a plain iterator on another signal, and a plain flag as the first action ever on
    // this signal (actions that do not look at the siginfo came first; the records must be complete all the same)
    let hist_other = if sig == libc::SIGUSR2 { libc::SIGUSR1 } else { libc::SIGUSR2 };
    let _hist_it = signal_hook::iterator::Signals::new([hist_other]);
    let _hist_flag = signal_hook::flag::register(sig, std::sync::Arc::new(std::sync::atomic::AtomicBool::new(false)));
    let mut o_it = match SignalsInfo::<WithOrigin>::new([sig]) {
        Ok(s) => s,
        Err(e) => {
            wr(fd, &format!("SKIP cannot watch {}: {}\n", sig, e));
            return 0;
        }
    };
    let mut r_it = SignalsInfo::<WithRawSiginfo>::new([sig]).unwrap();
    let me = unsafe { libc::getpid() };
    let uid = unsafe { libc::getuid() };
    let mut expect_pid = me;
    let mut expect: Vec<(Cause, bool)> = Vec::new();
    unsafe {
        match m {
            Mech::Kill => {
                libc::kill(me, sig);
                expect.push((Cause::Sent(Sent::User), true));
            }
            Mech::Raise => {
                libc::raise(sig);
                expect.push((Cause::Sent(Sent::TKill), true));
            }
            Mech::Tgkill => {
                libc::syscall(libc::SYS_tgkill, me, crate::sig::gettid(), sig);
                expect.push((Cause::Sent(Sent::TKill), true));
            }
            Mech::Sigqueue => {
                sigqueue(me, sig, libc::sigval { sival_ptr: 77 as *mut _ });
                expect.push((Cause::Sent(Sent::Queue), true));
            }
            Mech::ChildExit | Mech::ChildKilled | Mech::ChildStopCont | Mech::KillFromChild => {
                let mut sync = [0i32; 2];
                libc::pipe(sync.as_mut_ptr());
                let c = libc::fork();
                if c == 0 {
                    libc::close(sync[1]);
                    match m {
                        Mech::ChildExit => libc::_exit(3),
                        Mech::KillFromChild => {
                            libc::kill(me, sig);
                            // stay until the parent has seen it (exit would add a SIGCHLD, harmless)
                            let mut b = [0u8; 1];
                            libc::read(sync[0], b.as_mut_ptr() as *mut _, 1);
                            libc::_exit(0)
                        }
                        _ => {
                            let mut b = [0u8; 1];
                            libc::read(sync[0], b.as_mut_ptr() as *mut _, 1);
                            libc::_exit(0)
                        }
                    }
                }
                libc::close(sync[0]);
                expect_pid = c;
                match m {
                    Mech::ChildExit => expect.push((Cause::Chld(Chld::Exited), true)),
                    Mech::ChildKilled => {
                        libc::kill(c, libc::SIGKILL);
                        expect.push((Cause::Chld(Chld::Killed), true));
                    }
                    Mech::ChildStopCont => {
                        libc::kill(c, libc::SIGSTOP);
                        expect.push((Cause::Chld(Chld::Stopped), true));
                    }
                    _ => expect.push((Cause::Sent(Sent::User), true)),
                }
                DUMMY.store(sync[1] as u64, Ordering::SeqCst);
            }
            Mech::Itimer => {
                let it = libc::itimerval {
                    it_interval: libc::timeval { tv_sec: 0, tv_usec: 0 },
                    it_value: libc::timeval { tv_sec: 0, tv_usec: 2000 },
                };
                let which = if sig == libc::SIGALRM { 0 } else if sig == libc::SIGVTALRM { 1 } else { 2 };
                setitimer(which, &it, std::ptr::null_mut());
                expect.push((Cause::Kernel, false));
            }
            Mech::PosixTimer => {
                let mut sev: libc::sigevent = std::mem::zeroed();
                sev.sigev_notify = libc::SIGEV_SIGNAL;
                sev.sigev_signo = sig;
                let mut t: libc::timer_t = std::mem::zeroed();
                if libc::timer_create(libc::CLOCK_MONOTONIC, &mut sev, &mut t) != 0 {
                    wr(fd, "SKIP timer_create failed\n");
                    return 0;
                }
                let its = libc::itimerspec {
                    it_interval: libc::timespec { tv_sec: 0, tv_nsec: 0 },
                    it_value: libc::timespec { tv_sec: 0, tv_nsec: 2_000_000 },
                };
                libc::timer_settime(t, 0, &its, std::ptr::null_mut());
                // SI_TIMER is not a cause the library distinguishes: Unknown, and no process
                expect.push((Cause::Unknown, false));
            }
            Mech::Sigpipe => {
                let mut p = [0i32; 2];
                libc::pipe(p.as_mut_ptr());
                libc::close(p[0]);
                libc::write(p[1], b"x".as_ptr() as *const _, 1);
                expect.push((Cause::Sent(Sent::User), true));
            }
        }
    }
    // collect (busy CPU for the virtual/prof timers)
    let t0 = crate::now_ms();
    let mut origins: Vec<Origin> = Vec::new();
    let mut raws: Vec<siginfo_t> = Vec::new();
    while crate::now_ms() - t0 < 3000 && (origins.len() < expect.len() || raws.len() < expect.len()) {
        origins.extend(o_it.pending());
        raws.extend(r_it.pending());
        let mut x = 0u64;
        for i in 0..20000u64 {
            x = x.wrapping_add(i * i);
        }
        DUMMY.fetch_add(x & 1, Ordering::Relaxed);
    }
    if matches!(m, Mech::ChildStopCont) && !origins.is_empty() {
        // now continue it: a second record
        unsafe { libc::kill(expect_pid, libc::SIGCONT) };
        expect.push((Cause::Chld(Chld::Continued), true));
        let t1 = crate::now_ms();
        while crate::now_ms() - t1 < 3000 && origins.len() < 2 {
            origins.extend(o_it.pending());
            raws.extend(r_it.pending());
        }
    }
    let syncw = DUMMY.load(Ordering::SeqCst) as i32;
    if matches!(m, Mech::ChildKilled | Mech::ChildStopCont | Mech::KillFromChild) && syncw > 2 {
        unsafe {
            libc::close(syncw);
            libc::kill(expect_pid, libc::SIGKILL);
        }
    }
    if origins.len() < expect.len() {
        wr(fd, &format!("MISSING only {} of {} expected records arrived\n", origins.len(), expect.len()));
    }
    for (i, o) in origins.iter().enumerate().take(expect.len()) {
        let (cause, has_proc) = expect[i];
        if o.signal != sig {
            wr(fd, &format!("BAD signal: origin.signal {} for delivered {}\n", o.signal, sig));
        }
        if o.cause != cause {
            wr(fd, &format!("BAD cause: {:?}, the signal was caused by {:?} (expected {:?})\n", o.cause, m, cause));
        }
        match (o.process, has_proc) {
            (Some(p), true) => {
                let want_pid = if matches!(cause, Cause::Chld(_)) || matches!(m, Mech::KillFromChild) { expect_pid } else { me };
                if p.pid != want_pid || p.uid != uid {
                    wr(fd, &format!("BAD process: {:?}, expected pid {} uid {}\n", p, want_pid, uid));
                }
            }
            (None, false) => {}
            (Some(p), false) => wr(fd, &format!("BAD process: {:?} reported for a kernel-generated signal ({:?})\n", p, m)),
            (None, true) => wr(fd, &format!("BAD process: none reported for {:?}\n", m)),
        }
        wr(fd, &format!("GOT {:?} {:?} {:?}\n", m, o.cause, o.process.map(|p| p.pid == me)));
    }
    // the raw record read independently with libc's accessors must agree with a by-hand extraction
    for r in raws.iter() {
        let o = unsafe { Origin::extract(r) };
        let (cause, has_proc) = table(r.si_signo, r.si_code);
        if o.cause != cause || o.process.is_some() != has_proc {
            wr(fd, &format!("BAD extract: raw record code {} gives {:?}/{:?}, the table says {:?}/{}\n", r.si_code, o.cause, o.process, cause, has_proc));
        }
        if let Some(p) = o.process {
            let (lp, lu) = unsafe { (r.si_pid(), r.si_uid()) };
            if p.pid != lp || p.uid != lu {
                wr(fd, &format!("BAD extract: process {:?} but libc's accessors read pid {} uid {}\n", p, lp, lu));
            }
        }
    }
    wr(fd, "DONE\n");
    0
}

fn first_race() -> i32 {
    let barrier = std::sync::Arc::new(SpinBarrier(std::sync::atomic::AtomicUsize::new(0)));
    let mut js = Vec::new();
    for t in 0..4i32 {
        let b = barrier.clone();
        js.push(std::thread::spawn(move || {
            let kinds = [(libc::SIGUSR1, 0), (libc::SIGUSR1, -1), (libc::SIGHUP, -6), (libc::SIGCHLD, 1)];
            let (sg, code) = kinds[t as usize];
            let rec = synth(sg, code, 4000 + t, 5000 + t as u32);
            let want = table(sg, code);
            b.wait();
            let o = unsafe { Origin::extract(&rec) };
            o.cause == want.0 && o.process.map(|p| (p.pid, p.uid)) == Some((4000 + t, 5000 + t as u32))
        }));
    }
    if js.into_iter().all(|j| j.join().unwrap_or(false)) { 0 } else { 1 }
}

pub fn main(args: &[String]) -> i32 {
    if crate::has_flag(args, "--first-race") {
        return first_race();
    }
    let seed = arg_u64(args, "--seed", 1);
    let t0 = crate::now_ms();
    let mut bad: Vec<(String, String)> = Vec::new();
    let mut keys = std::collections::HashSet::new();
    let mut samples = Vec::new();
    let syn = synthetic(&mut bad, &mut keys);
    let rt = crate::sig::rtmin();
    let catchable: Vec<c_int> = (1..=64).filter(|s| ![4, 8, 9, 11, 19, 32, 33].contains(s)).collect();
    let mut real = 0u64;
    let mut skipped = 0u64;
    let mut inconclusive = None;
    let mut plan: Vec<(Mech, c_int)> = Vec::new();
    let full = crate::has_flag(args, "--full");
    for (i, s) in catchable.iter().enumerate() {
        // SIGCHLD itself is left to the child mechanisms (a forked helper would add records)
        if *s == libc::SIGCHLD {
            continue;
        }
        for (k, m) in [Mech::Kill, Mech::Raise, Mech::Tgkill, Mech::Sigqueue, Mech::KillFromChild].iter().enumerate() {
            if full || (i + k + seed as usize) % 4 == 0 || *s == libc::SIGUSR1 || *s == rt + 1 {
                if matches!(m, Mech::KillFromChild) && (*s == libc::SIGTSTP || *s == libc::SIGTTIN || *s == libc::SIGTTOU || *s == libc::SIGCONT) {
                    continue;
                }
                plan.push((*m, *s));
            }
        }
    }
    plan.push((Mech::ChildExit, libc::SIGCHLD));
    plan.push((Mech::ChildKilled, libc::SIGCHLD));
    plan.push((Mech::ChildStopCont, libc::SIGCHLD));
    plan.push((Mech::Itimer, libc::SIGALRM));
    plan.push((Mech::Itimer, libc::SIGVTALRM));
    plan.push((Mech::Itimer, libc::SIGPROF));
    plan.push((Mech::PosixTimer, libc::SIGUSR2));
    plan.push((Mech::PosixTimer, rt + 3));
    plan.push((Mech::Sigpipe, libc::SIGPIPE));
    for (m, s) in plan.iter().cloned() {
        let res = fork::probe(30_000, false, move |fd| real_child(m, s, fd));
        let label = format!("{:?} signal {}", m, s);
        match &res.end {
            End::Exit(0) if res.out.contains("DONE") || res.out.contains("SKIP") => {}
            End::Timeout => {
                inconclusive = Some(format!("{} timed out", label));
                continue;
            }
            other => {
                bad.push(("origin-probe-died".into(), format!("{}: child ended {:?} ({})", label, other, res.out.lines().last().unwrap_or(""))));
                continue;
            }
        }
        if res.out.contains("SKIP") {
            skipped += 1;
            continue;
        }
        real += 1;
        if res.out.contains("MISSING") {
            inconclusive = Some(format!("{}: {}", label, res.out.lines().find(|l| l.starts_with("MISSING")).unwrap_or("")));
        }
        for l in res.out.lines().filter(|l| l.starts_with("BAD ")) {
            let sigv = if l.contains("BAD cause") { format!("real-cause-{:?}", m) } else if l.contains("BAD process") { format!("real-process-{:?}", m) }
                else if l.contains("BAD extract") { "real-extract-vs-accessors".to_string() } else { "real-signal-number".to_string() };
            bad.push((sigv, format!("{} || {}", &l[4..], label)));
        }
        keys.insert(format!("real:{:?}:{}", m, if s >= rt { "rt" } else { "std" }));
        if samples.len() < 10 {
            if let Some(g) = res.out.lines().find(|l| l.starts_with("GOT")) {
                samples.push(J::s(&format!("{} -> {}", label, g)));
            }
        }
    }
    // the very first extractions of a process, made by four threads at the same moment: freshly exec'ed processes (a forked
    // child would inherit whatever the library set up during the extractions this process has already made)
    if let Ok(exe) = std::env::current_exe() {
        for round in 0..120 {
            match std::process::Command::new(&exe).args(["w_origin", "--first-race"]).output() {
                Ok(o) if o.status.code() == Some(0) => {
                    keys.insert("first-extractions-race".to_string());
                }
                Ok(o) if o.status.code() == Some(1) => {
                    bad.push(("overlapping-extractions-mixed-up".into(), format!("round {}: the first extractions of a fresh process, made by four threads at once, did not all report the cause and sender of their own record", round)));
                    break;
                }
                other => {
                    inconclusive = Some(format!("first-extraction probe could not run: {:?}", other.map(|o| o.status)));
                    break;
                }
            }
        }
    }
    // overlapping extractions
    let mut overlap = (0u64, 0u64);
    {
        let res = fork::probe(60_000, false, overlapping_child);
        match &res.end {
            End::Exit(0) if res.out.contains("DONE") => {}
            End::Timeout => inconclusive = Some("overlapping extractions timed out".into()),
            other => bad.push(("origin-probe-died".into(), format!("overlapping extractions: child ended {:?}", other))),
        }
        for l in res.out.lines().filter(|l| l.starts_with("BAD overlap")) {
            bad.push(("overlapping-extractions-mixed-up".into(), l[4..].to_string()));
        }
        if let Some(l) = res.out.lines().find(|l| l.starts_with("OVERLAP ")) {
            for kv in l.split_whitespace() {
                if let Some(v) = kv.strip_prefix("extractions=") {
                    overlap.0 = v.parse().unwrap_or(0);
                }
                if let Some(v) = kv.strip_prefix("nested=") {
                    overlap.1 = v.parse().unwrap_or(0);
                }
            }
            keys.insert("overlapping-extractions".to_string());
        }
    }
    let mut nviol = 0;
    let mut seen = std::collections::HashSet::new();
    for (s, d) in bad.iter() {
        if seen.insert(s.clone()) && nviol < 10 {
            emit_violation("C17", s, d);
            nviol += 1;
        }
    }
    emit(&J::obj()
        .set("type", J::s("summary"))
        .set("workload", J::s("w_origin"))
        .set("seed", J::u(seed))
        .set("evaluations", J::u(syn + real))
        .set("distinct_keys", J::arr(keys.iter().map(|k| J::s(k))))
        .set("samples", J::Arr(samples))
        .set("synthetic_records", J::u(syn))
        .set("real_probes", J::u(real))
        .set("real_probes_skipped", J::u(skipped))
        .set("overlapping_extractions", J::u(overlap.0))
        .set("extractions_nested_in_a_handler", J::u(overlap.1))
        .set("violations", J::u(nviol))
        .set("wall_ms", J::u(crate::now_ms() - t0)));
    if nviol == 0 {
        if let Some(r) = inconclusive {
            emit(&J::obj().set("type", J::s("inconclusive")).set("reason", J::s(&r)));
            return 2;
        }
    }
    if nviol > 0 { 1 } else { 0 }
}
