//! w_chain: a pre-existing handler is chained (C04). One forked child per trial (a first
//! registration happens once per signal per process). The foreign handler H and the registered
//! actions log (signal, seq, info pointer); all sends carry a unique seq (sigqueue), so every
//! delivery is an identifiable event.

use std::sync::atomic::{AtomicBool, AtomicU64, AtomicUsize, Ordering};
use std::sync::Arc;

use libc::{c_int, c_void, siginfo_t};

use crate::director::{self, mode, RuleSpec};
use crate::evlog::{self, kind};
use crate::fork::{self, End};
use crate::jsonw::{emit, emit_violation, J};
use crate::pool;
use crate::{arg_u64, class, site};

const TAB: usize = 1 << 14;
#[allow(clippy::declare_interior_mutable_const)]
const A0: AtomicUsize = AtomicUsize::new(0);
static H_INFO: [AtomicUsize; TAB] = [A0; TAB];
static H_CTX: [AtomicUsize; TAB] = [A0; TAB];
static A_INFO: [AtomicUsize; TAB] = [A0; TAB];
static H_BAD: AtomicU64 = AtomicU64::new(0);
static NO_INFO: AtomicU64 = AtomicU64::new(0);
static START_SENDING: AtomicBool = AtomicBool::new(false);

extern "C" fn h_siginfo(sig: c_int, info: *mut siginfo_t, ctx: *mut c_void) {
    // called with the wrong arity, info is garbage: null / misaligned / not a siginfo for this signal
    let ok = !info.is_null() && (info as usize) % 8 == 0 && (info as usize) > 4096 && unsafe { (*info).si_signo } == sig;
    if !ok {
        H_BAD.fetch_add(1, Ordering::SeqCst);
        evlog::log(kind::PREV, sig as u64, u64::MAX - 2);
        return;
    }
    if unsafe { (*info).si_code } != crate::sig::SI_QUEUE {
        // every send is a sigqueue: the kernel dropped the siginfo (pending-signal quota of the user exhausted)
        NO_INFO.fetch_add(1, Ordering::SeqCst);
    }
    if SWAPPED.load(Ordering::SeqCst) {
        // this handler was replaced before the library took the signal over
        STALE_CALLS.fetch_add(1, Ordering::SeqCst);
    }
    let seq = crate::sig::si_value(unsafe { &*info }) as u64;
    H_INFO[(seq as usize) % TAB].store(info as usize, Ordering::SeqCst);
    H_CTX[(seq as usize) % TAB].store(ctx as usize, Ordering::SeqCst);
    evlog::log(kind::PREV, sig as u64, seq);
}

/// Set when the test itself replaced the foreign handler (after the library had looked at the old one, before it took
/// the signal over); from then on only the replacement may be chained.
static SWAPPED: AtomicBool = AtomicBool::new(false);
static STALE_CALLS: AtomicU64 = AtomicU64::new(0);

/// The replacement: same logging as `h_siginfo`.
extern "C" fn h_second(sig: c_int, info: *mut siginfo_t, ctx: *mut c_void) {
    let ok = !info.is_null() && (info as usize) % 8 == 0 && (info as usize) > 4096 && unsafe { (*info).si_signo } == sig;
    if !ok {
        H_BAD.fetch_add(1, Ordering::SeqCst);
        evlog::log(kind::PREV, sig as u64, u64::MAX - 2);
        return;
    }
    let seq = crate::sig::si_value(unsafe { &*info }) as u64;
    H_INFO[(seq as usize) % TAB].store(info as usize, Ordering::SeqCst);
    H_CTX[(seq as usize) % TAB].store(ctx as usize, Ordering::SeqCst);
    evlog::log(kind::PREV, sig as u64, seq);
}

static SWAP_SIG: AtomicU64 = AtomicU64::new(0);

fn swap_prev(_s: u32, _a: usize, _b: usize) {
    let sig = SWAP_SIG.load(Ordering::SeqCst) as c_int;
    unsafe { crate::sig::install_raw(sig, h_second as usize, libc::SA_RESTART | libc::SA_SIGINFO) };
    SWAPPED.store(true, Ordering::SeqCst);
}

extern "C" fn h_plain(sig: c_int) {
    evlog::log(kind::PREV, sig as u64, u64::MAX - 1);
}

extern "C" fn h_other(sig: c_int, _info: *mut siginfo_t, _ctx: *mut c_void) {
    evlog::log(kind::PREV, sig as u64, u64::MAX - 3);
}

fn at_sigaction(_s: u32, _a: usize, _b: usize) {
    START_SENDING.store(true, Ordering::SeqCst);
}

#[derive(Clone, Copy, Debug, PartialEq)]
enum Prev {
    Default,
    Ignore,
    Plain,
    Siginfo,
}

#[derive(Clone, Debug)]
struct Trial {
    prev: Prev,
    sig: c_int,
    /// Raise on the registering thread at (site, occurrence); site 0 = none
    raise_site: u32,
    occ: u64,
    /// bombard victim threads with queued signals during the first registration
    bombard: bool,
    delay_after_sigaction: bool,
    /// another thread does the first registration of another signal (with its own H) meanwhile
    concurrent_other: bool,
    /// the other signal (which has a real handler of its own) was taken over by the library BEFORE this trial's first
    /// registration: its handler is what the race fallback still holds and must never be run for this signal
    other_first: bool,
    /// the foreign handler is replaced by another one after the library has looked at the disposition and before it takes
    /// the signal over (as another thread's sigaction() could): the handler in place at the take-over is the one to chain
    swap_prev: bool,
    /// the registering thread is held right after its sigaction(); another thread starts the first registration of another
    /// signal (which has a handler of its own); then one delivery of this signal arrives on the registering thread
    paused_other: bool,
    /// the other signal has the very same foreign handler function and flags as this one (a fallback that is compared by
    /// handler only would still name the other signal during this one's window)
    same_prev_other: bool,
    /// non-zero: instead of raising at the site itself, single-step from that arrival and raise at the k-th instruction
    /// after it (`istep`); raise_site 0 = step from the call of register itself
    step_k: u64,
}

static STEP_SIG: AtomicU64 = AtomicU64::new(0);

fn chain_step_action(_k: u64, _rip: usize) {
    let sig = STEP_SIG.load(Ordering::SeqCst) as c_int;
    let seq = pool::SEQ.fetch_add(1, Ordering::SeqCst);
    evlog::log(kind::SEND, sig as u64, seq);
    crate::sig::queue_self(sig, seq as usize);
}

fn child(t: &Trial, fd: i32) -> i32 {
    use fork::wr;
    let sig = t.sig;
    let other = if sig == libc::SIGUSR2 { libc::SIGUSR1 } else { libc::SIGUSR2 };
    crate::set_thread(1, class::MAIN);
    evlog::init(1 << 18);
    evlog::enable(true);
    director::install();
    director::LOG_HOOKS.store(2, Ordering::SeqCst);
    unsafe {
        match t.prev {
            Prev::Default => {}
            Prev::Ignore => {
                libc::signal(sig, libc::SIG_IGN);
            }
            Prev::Plain => {
                crate::sig::install_raw(sig, h_plain as usize, libc::SA_RESTART);
            }
            Prev::Siginfo => {
                crate::sig::install_raw(sig, h_siginfo as usize, libc::SA_RESTART | libc::SA_SIGINFO);
            }
        }
        if t.same_prev_other && t.prev == Prev::Siginfo {
            crate::sig::install_raw(other, h_siginfo as usize, libc::SA_RESTART | libc::SA_SIGINFO);
        } else {
            crate::sig::install_raw(other, h_other as usize, libc::SA_RESTART | libc::SA_SIGINFO);
        }
    }
    if t.other_first {
        // before any rule is armed and before anything is sent
        let _ = unsafe { signal_hook_registry::register(other, || ()) };
        director::lib_exit();
    }
    let real_prev = matches!(t.prev, Prev::Plain | Prev::Siginfo);
    if real_prev {
        START_SENDING.store(true, Ordering::SeqCst);
    }
    director::set_rule(site::REG_AFTER_SIGACTION, RuleSpec { mode: mode::CALL, callf: Some(at_sigaction), class_mask: class::MAIN, nth: 1, ..Default::default() });
    // note: CALL at REG_AFTER_SIGACTION and a RAISE there exclude each other; RAISE wins below
    if t.swap_prev {
        SWAP_SIG.store(sig as u64, Ordering::SeqCst);
        director::set_rule(site::REG_AFTER_FALLBACK, RuleSpec { mode: mode::CALL, callf: Some(swap_prev), class_mask: class::MAIN, nth: 1, ..Default::default() });
    }
    let mut controller = None;
    if t.paused_other {
        director::set_rule(site::REG_AFTER_SIGACTION, RuleSpec { mode: mode::PAUSE, class_mask: class::MAIN, nth: 1, arg: 0, ..Default::default() });
        let main_pth = unsafe { libc::pthread_self() } as usize;
        controller = Some(std::thread::spawn(move || {
            crate::set_thread(30, class::KILLER);
            let t0 = crate::now_ms();
            while director::parked(0) != Some(1) {
                std::thread::yield_now();
                if crate::now_ms() - t0 > 5000 {
                    return None;
                }
            }
            // the other thread: first registration of the other signal; it must wait for the registry lock the paused thread holds
            let b_ktid = Arc::new(std::sync::atomic::AtomicI32::new(0));
            let bk = b_ktid.clone();
            let b_done = Arc::new(AtomicBool::new(false));
            let bd = b_done.clone();
            let bj = std::thread::spawn(move || {
                crate::set_thread(20, class::MUTATOR);
                bk.store(crate::sig::gettid(), Ordering::SeqCst);
                let id = unsafe { signal_hook_registry::register(other, || ()) };
                director::lib_exit();
                bd.store(true, Ordering::SeqCst);
                id.is_ok()
            });
            let t0 = crate::now_ms();
            loop {
                let kt = b_ktid.load(Ordering::SeqCst);
                let zero = || 0u64;
                if b_done.load(Ordering::SeqCst) || (kt != 0 && crate::probe::stably_blocked_in(kt, &[202], None, 3, 2, &zero)) {
                    break;
                }
                if crate::now_ms() - t0 > 5000 {
                    break;
                }
                std::thread::yield_now();
            }
            // one delivery to the registering thread, which is inside the window between sigaction() and publication
            let seq = pool::SEQ.fetch_add(1, Ordering::SeqCst);
            evlog::log(kind::SEND, sig as u64, seq);
            crate::sig::queue_thread(main_pth as libc::pthread_t, sig, seq as usize);
            let t0 = crate::now_ms();
            while director::dispatches() == 0 && crate::now_ms() - t0 < 2000 {
                std::thread::yield_now();
            }
            std::thread::sleep(std::time::Duration::from_millis(2));
            director::rule_off(site::REG_AFTER_SIGACTION);
            director::open_gate(0);
            Some(bj)
        }));
    }
    if t.step_k != 0 {
        crate::istep::install();
        STEP_SIG.store(sig as u64, Ordering::SeqCst);
        if t.raise_site != 0 {
            crate::istep::plan_for(1, t.raise_site, t.occ, t.step_k, 20_000, u64::MAX, u64::MAX, true, chain_step_action);
        }
    } else if t.raise_site != 0 {
        if t.raise_site == site::REG_AFTER_SIGACTION {
            START_SENDING.store(true, Ordering::SeqCst);
        }
        director::set_rule(t.raise_site, RuleSpec { mode: mode::RAISE, class_mask: class::MAIN, nth: t.occ, arg: sig as usize, ..Default::default() });
    } else if t.delay_after_sigaction {
        // widen the window between sigaction() and the publication of the slot
        director::set_rule(site::REG_BEFORE_PUBLISH, RuleSpec { mode: mode::DELAY, class_mask: class::MAIN, max: 60000, ..Default::default() });
    }
    // ---- victims + sender
    let stop = Arc::new(AtomicBool::new(false));
    let stop_victims = Arc::new(AtomicBool::new(false));
    let sent_ok: Arc<std::sync::Mutex<Vec<u64>>> = Arc::new(std::sync::Mutex::new(Vec::new()));
    let mut joins = Vec::new();
    let mut sender = None;
    if t.bombard {
        for v in 0..3u32 {
            let stop_victims = stop_victims.clone();
            joins.push(std::thread::spawn(move || {
                crate::set_thread(10 + v, class::VICTIM);
                pool::add_target(0);
                pool::victim_spin(&stop_victims);
                // take everything that is still queued for this thread before it goes away
                let t0 = crate::now_ms();
                while crate::sig::is_pending(sig) && crate::now_ms() - t0 < 5000 {
                    std::hint::spin_loop();
                }
            }));
        }
        while pool::N_TARGETS.load(Ordering::SeqCst) < 3 {
            std::thread::yield_now();
        }
        let (stop2, sent2) = (stop.clone(), sent_ok.clone());
        sender = Some(std::thread::spawn(move || {
            crate::set_thread(60, class::KILLER);
            let mut i = 0usize;
            let mut mine = Vec::new();
            while !stop2.load(Ordering::SeqCst) && mine.len() < 4000 {
                if !START_SENDING.load(Ordering::SeqCst) {
                    std::hint::spin_loop();
                    continue;
                }
                let th = pool::TARGETS[i % 3].load(Ordering::SeqCst);
                i += 1;
                let seq = pool::SEQ.fetch_add(1, Ordering::SeqCst);
                if crate::sig::queue_thread(th as libc::pthread_t, sig, seq as usize) == 0 {
                    mine.push(seq);
                }
                for _ in 0..200 {
                    std::hint::spin_loop();
                }
            }
            sent2.lock().unwrap().extend(mine);
        }));
        // let the bombardment get going before the registration starts (only harmless with a real prev)
        if real_prev {
            std::thread::sleep(std::time::Duration::from_micros(300));
        }
    }
    let other_thread = if t.concurrent_other {
        Some(std::thread::spawn(move || {
            crate::set_thread(20, class::MUTATOR);
            let id = unsafe { signal_hook_registry::register(other, || ()) }.unwrap();
            director::lib_exit();
            id
        }))
    } else {
        None
    };
    // ---- the first registration
    let tags = Arc::new(AtomicU64::new(0));
    let mk_action = |tag: u64| {
        move |info: &siginfo_t| {
            if info.si_code != crate::sig::SI_QUEUE {
                NO_INFO.fetch_add(1, Ordering::SeqCst);
            }
            let seq = crate::sig::si_value(info) as u64;
            if tag == 1 {
                A_INFO[(seq as usize) % TAB].store(info as *const siginfo_t as usize, Ordering::SeqCst);
            }
            evlog::log(kind::ACT_BEGIN, tag, seq);
        }
    };
    evlog::log(kind::CALL, 1, sig as u64);
    if t.step_k != 0 && t.raise_site == 0 {
        crate::istep::arm(t.step_k, 20_000, chain_step_action);
    }
    let id1 = unsafe { signal_hook_registry::register_sigaction(sig, mk_action(1)) };
    if t.step_k != 0 {
        crate::istep::cancel_plan(1);
        if crate::istep::is_active() {
            crate::istep::disarm();
        }
        let st = crate::istep::state_of(1);
        wr(fd, &format!("STEP gap={} fired={} rip={:#x}\n", crate::istep::LAST_GAP[1].load(Ordering::SeqCst), st.fired.load(Ordering::SeqCst), st.fired_rip.load(Ordering::SeqCst)));
    }
    evlog::log(kind::RET, 1, sig as u64);
    director::lib_exit();
    director::clear_rules();
    if let Some(c) = controller {
        if let Ok(Some(bj)) = c.join() {
            let _ = bj.join();
        } else {
            wr(fd, "BAD the registering thread was not found paused after its sigaction()\n");
        }
    }
    let id1 = match id1 {
        Ok(id) => id,
        Err(e) => {
            wr(fd, &format!("BAD first registration failed: {}\n", e));
            return 0;
        }
    };
    let _ = tags;
    // a few sends right after (synchronous: delivered before queue_self returns)
    let mut self_sent: Vec<u64> = Vec::new();
    let send_self = |v: &mut Vec<u64>| {
        let seq = pool::SEQ.fetch_add(1, Ordering::SeqCst);
        if crate::sig::queue_self(sig, seq as usize) == 0 {
            v.push(seq);
        }
    };
    for _ in 0..3 {
        send_self(&mut self_sent);
    }
    evlog::log(kind::MARK, 10, 0); // phase: registered
    if let Some(j) = other_thread {
        let _ = j.join();
    }
    // ---- stop the bombardment, wait until everything queued has been delivered
    stop.store(true, Ordering::SeqCst);
    if let Some(s) = sender {
        let _ = s.join();
    }
    stop_victims.store(true, Ordering::SeqCst);
    for j in joins {
        let _ = j.join();
    }
    pool::clear_targets();
    // ---- later phases
    // (a) another signal is registered for the first time (overwrites the race fallback), then all actions removed
    if !t.concurrent_other && !t.other_first && !t.paused_other {
        let _ = unsafe { signal_hook_registry::register(other, || ()) };
    }
    evlog::log(kind::MARK, 11, 0);
    signal_hook_registry::unregister(id1);
    evlog::log(kind::MARK, 12, 0); // phase: no action left
    for _ in 0..3 {
        send_self(&mut self_sent);
    }
    evlog::log(kind::MARK, 13, 0);
    // (b) 50 further registrations
    let mut ids = Vec::new();
    for k in 0..50u64 {
        ids.push(unsafe { signal_hook_registry::register_sigaction(sig, mk_action(100 + k)) }.unwrap());
    }
    evlog::log(kind::MARK, 14, 0);
    for _ in 0..2 {
        send_self(&mut self_sent);
    }
    // the other signal's handler is chained, too
    let oseq = pool::SEQ.fetch_add(1, Ordering::SeqCst);
    crate::sig::queue_self(other, oseq as usize);
    director::lib_exit();
    evlog::enable(false);

    // ---------------------------------------------------------------- checker
    let evs = evlog::snapshot();
    // queued standard signals coalesce while one is pending: only real-time signals (never coalesced) and
    // the synchronous self-sends are accounted for exactly
    let exact_bombard = sig >= crate::sig::rtmin();
    let mut all_sent: Vec<u64> = if exact_bombard { sent_ok.lock().unwrap().clone() } else { Vec::new() };
    all_sent.extend(self_sent.iter());
    let raise_seqs: Vec<u64> = evs.iter().filter(|e| e.kind == kind::SEND && e.a == sig as u64).map(|e| e.b).collect();
    all_sent.extend(raise_seqs.iter());
    let mut bad: Vec<String> = Vec::new();
    // per-seq accounting
    let mut prev_count: std::collections::HashMap<u64, (u32, usize)> = Default::default();
    let mut act_count: std::collections::HashMap<(u64, u64), (u32, usize)> = Default::default();
    let mut plain_calls = 0u64;
    let mut other_prev = 0u64;
    for (stamp, e) in evs.iter().enumerate() {
        if e.kind == kind::PREV {
            if e.a == other as u64 {
                other_prev += 1;
            } else if e.b == u64::MAX - 1 {
                plain_calls += 1;
            } else if e.b == u64::MAX - 2 {
                bad.push("the siginfo handler was called with garbage arguments (wrong calling convention)".into());
            } else {
                let c = prev_count.entry(e.b).or_insert((0, stamp));
                c.0 += 1;
            }
        } else if e.kind == kind::ACT_BEGIN {
            let c = act_count.entry((e.a, e.b)).or_insert((0, stamp));
            c.0 += 1;
        }
    }
    if H_BAD.load(Ordering::SeqCst) > 0 && bad.is_empty() {
        bad.push("the siginfo handler got an invalid info pointer".into());
    }
    let ignored_before_switch = t.prev == Prev::Ignore;
    match t.prev {
        Prev::Siginfo => {
            for seq in all_sent.iter() {
                match prev_count.get(seq) {
                    Some((1, _)) => {}
                    Some((n, _)) => bad.push(format!("delivery seq {}: the previous handler ran {} times", seq, n)),
                    None => bad.push(format!("delivery seq {}: the previous handler did not run (sent during/after the first registration)", seq)),
                }
            }
        }
        Prev::Plain => {
            if (exact_bombard || !t.bombard) && plain_calls != all_sent.len() as u64 {
                bad.push(format!("the previous (one-argument) handler ran {} times for {} deliveries", plain_calls, all_sent.len()));
            }
        }
        _ => {
            if plain_calls + prev_count.len() as u64 > 0 {
                bad.push("a previous 'handler' was called although the disposition was default/ignore".into());
            }
        }
    }
    // each action at most once per delivery; H before the action; same info pointer
    for ((tag, seq), (n, astamp)) in act_count.iter() {
        if *n != 1 {
            bad.push(format!("action {} ran {} times for delivery seq {}", tag, n, seq));
        }
        if t.prev == Prev::Siginfo {
            if let Some((_, pstamp)) = prev_count.get(seq) {
                if pstamp > astamp {
                    bad.push(format!("delivery seq {}: action {} ran before the previous handler", seq, tag));
                }
                if *tag == 1 {
                    let (h, a) = (H_INFO[(*seq as usize) % TAB].load(Ordering::SeqCst), A_INFO[(*seq as usize) % TAB].load(Ordering::SeqCst));
                    if h != a {
                        bad.push(format!("delivery seq {}: previous handler got info {:#x}, the action got {:#x}", seq, h, a));
                    }
                    if H_CTX[(*seq as usize) % TAB].load(Ordering::SeqCst) == 0 {
                        bad.push(format!("delivery seq {}: previous handler got a null context", seq));
                    }
                }
            }
        }
    }
    // bracket rule: inside every dispatch bracket of `sig`: exactly one H call, first (real prev); none otherwise
    let mut stacks: std::collections::HashMap<u32, Vec<(u64, usize, u32, u32)>> = Default::default();
    let mut brackets = 0u64;
    let mut fallback_brackets = 0u64;
    let mut mark12 = usize::MAX;
    let mut mark13 = 0usize;
    for (stamp, e) in evs.iter().enumerate() {
        if e.kind == kind::MARK && e.a == 12 {
            mark12 = stamp;
        }
        if e.kind == kind::MARK && e.a == 13 {
            mark13 = stamp;
        }
        let st = stacks.entry(e.tid).or_default();
        if e.kind == site::DISPATCH_ENTER {
            st.push((e.a, stamp, 0, 0));
        } else if e.kind == site::D_FALLBACK_PREV {
            fallback_brackets += 1;
        } else if e.kind == kind::PREV {
            if let Some(top) = st.last_mut() {
                if top.3 > 0 {
                    bad.push(format!("previous handler ran after {} action(s) in the bracket that began at stamp {}", top.3, top.1));
                }
                top.2 += 1;
            }
        } else if e.kind == kind::ACT_BEGIN {
            if let Some(top) = st.last_mut() {
                top.3 += 1;
            }
        } else if e.kind == site::DISPATCH_EXIT {
            if let Some((bsig, enter, prevs, acts)) = st.pop() {
                if bsig == sig as u64 {
                    brackets += 1;
                    let want = if real_prev { 1 } else { 0 };
                    if prevs != want {
                        bad.push(format!("dispatch bracket of signal {} (stamps {}..{}) ran the previous handler {} times (expected {}), {} actions", sig, enter, stamp, prevs, want, acts));
                    }
                    if enter > mark12 && stamp < mark13 && acts != 0 {
                        bad.push(format!("an action ran although all had been unregistered (bracket {}..{})", enter, stamp));
                    }
                }
            }
        }
    }
    if t.swap_prev {
        if !SWAPPED.load(Ordering::SeqCst) {
            bad.push("the replacement of the foreign handler did not take place (site not passed)".into());
        }
        let st = STALE_CALLS.load(Ordering::SeqCst);
        if st != 0 {
            bad.push(format!("a handler that had been replaced before the library took the signal over was called {} times (stale previous handler chained)", st));
        }
    }
    if other_prev != 1 {
        bad.push(format!("the other signal's own previous handler ran {} times for one delivery", other_prev));
    }
    let _ = ignored_before_switch;
    if NO_INFO.load(Ordering::SeqCst) > 0 {
        wr(fd, &format!("ENVIRONMENT {} deliveries without queued siginfo (RLIMIT_SIGPENDING exhausted by another process)\n", NO_INFO.load(Ordering::SeqCst)));
        bad.clear();
    }
    for b in bad.iter().take(6) {
        wr(fd, &format!("BAD {}\n", b));
    }
    wr(fd, &format!("STATS sent={} brackets={} fallback_path={} raise_fired={} prevs={} acts={}\n", all_sent.len(), brackets, fallback_brackets, raise_seqs.len(), prev_count.len() as u64 + plain_calls, act_count.len()));
    wr(fd, "DONE\n");
    0
}

pub fn main(args: &[String]) -> i32 {
    let seed = arg_u64(args, "--seed", 1);
    let reps = arg_u64(args, "--reps", 1);
    let t0 = crate::now_ms();
    let rt = crate::sig::rtmin();
    let sigs = [libc::SIGUSR1, libc::SIGUSR2, libc::SIGHUP, libc::SIGTERM, libc::SIGURG, libc::SIGCHLD, rt + 1, rt + 2, rt + 4, rt + 6];
    let pre_sites = [site::REG_CLONED, site::REG_BEFORE_FALLBACK, site::REG_AFTER_FALLBACK];
    let post_sites = [site::REG_AFTER_SIGACTION, site::REG_BEFORE_PUBLISH, site::REG_DONE];
    let hl_sites = [site::HL_W_LOCKED, site::HL_W_ALLOC, site::HL_W_SWAPPED, site::HL_B_FIRST, site::HL_B_FLIP, site::HL_B_DONE, site::HL_W_FREE, site::HL_W_FREED];
    let mut trials: Vec<Trial> = Vec::new();
    for (pi, prev) in [Prev::Siginfo, Prev::Plain, Prev::Default, Prev::Ignore].iter().enumerate() {
        let real = matches!(prev, Prev::Plain | Prev::Siginfo);
        for (si, sig) in sigs.iter().enumerate() {
            // sharded by seed: each signal gets a third of the site list per run, everything with --reps >= 3
            let mut k = 0usize;
            let mut push = |t: Trial, trials: &mut Vec<Trial>| {
                k += 1;
                if reps >= 3 || (k + si + pi + seed as usize) % 3 == 0 {
                    trials.push(t);
                }
            };
            let base = Trial { prev: *prev, sig: *sig, raise_site: 0, occ: 1, bombard: false, delay_after_sigaction: false, concurrent_other: false, other_first: false, swap_prev: false, paused_other: false, same_prev_other: false, step_k: 0 };
            if real {
                for s in pre_sites.iter() {
                    push(Trial { raise_site: *s, ..base.clone() }, &mut trials);
                }
            }
            for s in post_sites.iter() {
                push(Trial { raise_site: *s, ..base.clone() }, &mut trials);
            }
            for s in hl_sites.iter() {
                // occurrence 1 = the store into the fallback (HL_W_LOCKED: the data lock), 2 = the publication of the slot
                if real {
                    push(Trial { raise_site: *s, occ: 1, ..base.clone() }, &mut trials);
                }
                if *s != site::HL_W_LOCKED {
                    push(Trial { raise_site: *s, occ: 2, ..base.clone() }, &mut trials);
                }
            }
            push(Trial { bombard: true, ..base.clone() }, &mut trials);
            push(Trial { bombard: true, delay_after_sigaction: true, ..base.clone() }, &mut trials);
            push(Trial { bombard: true, concurrent_other: true, ..base.clone() }, &mut trials);
            push(Trial { concurrent_other: true, raise_site: site::REG_BEFORE_PUBLISH, ..base.clone() }, &mut trials);
            // the fallback still holds another signal's real handler
            push(Trial { other_first: true, raise_site: site::REG_AFTER_SIGACTION, ..base.clone() }, &mut trials);
            push(Trial { other_first: true, raise_site: site::REG_BEFORE_PUBLISH, ..base.clone() }, &mut trials);
            push(Trial { other_first: true, raise_site: site::HL_B_FLIP, occ: 2, ..base.clone() }, &mut trials);
            push(Trial { other_first: true, bombard: true, delay_after_sigaction: true, ..base.clone() }, &mut trials);
            if *prev == Prev::Siginfo {
                push(Trial { other_first: true, same_prev_other: true, raise_site: site::REG_AFTER_SIGACTION, ..base.clone() }, &mut trials);
                push(Trial { other_first: true, same_prev_other: true, raise_site: site::REG_BEFORE_PUBLISH, ..base.clone() }, &mut trials);
            }
            if *prev == Prev::Siginfo {
                push(Trial { swap_prev: true, ..base.clone() }, &mut trials);
            }
            if real {
                push(Trial { paused_other: true, ..base.clone() }, &mut trials);
            }
        }
    }
    if crate::arg_str(args, "--mode", "") == "istep" {
        return istep_main(args, seed, &sigs);
    }
    if let Some(detail) = late_handler_probe() {
        emit_violation("C04", "dispatcher-recurses-through-late-handler", &detail);
        emit_violation("C03", "dispatch-recurses", &detail);
        emit(&J::obj().set("type", J::s("summary")).set("workload", J::s("w_chain")).set("evaluations", J::u(1)).set("distinct_keys", J::arr([J::s("late-handler")])).set("samples", J::arr([J::s(&detail)])).set("violations", J::u(1)));
        return 1;
    }
    // a delivery stalled at every site inside the dispatcher while the first registration completes and another begins
    {
        let rep = stalled_dispatch_sweep();
        for b in rep.bad.iter().take(3) {
            emit_violation("C04", if b.contains("process ended") { "stalled-delivery-crashes" } else { "prev-not-called-once-for-stalled-delivery" }, b);
        }
        emit(&J::obj()
            .set("type", J::s("summary"))
            .set("workload", J::s("w_chain"))
            .set("mode", J::s("stalled-dispatch"))
            .set("evaluations", J::u(rep.trials))
            .set("distinct_keys", J::arr(rep.keys.iter().map(|k| J::s(k))))
            .set("stalled_dispatch_trials", J::u(rep.trials))
            .set("stalled_dispatch_parked", J::u(rep.parked))
            .set("violations", J::u(rep.bad.len().min(3) as u64)));
        if !rep.bad.is_empty() {
            return 1;
        }
        if let Some(r) = rep.inconclusive {
            emit(&J::obj().set("type", J::s("inconclusive")).set("reason", J::s(&r)));
            return 2;
        }
    }
    let mut bad: Vec<(String, String)> = Vec::new();
    let mut keys = std::collections::HashSet::new();
    let mut samples = Vec::new();
    let mut n = 0u64;
    let mut tot = [0u64; 6];
    let mut inconclusive = None;
    for rep in 0..reps.max(1) {
        for t in trials.iter() {
            let tc = t.clone();
            let res = fork::probe(60_000, false, move |fd| child(&tc, fd));
            n += 1;
            let label = format!("prev={:?} signal={} raise_at={}#{} bombard={} delay={} concurrent_other={} other_first={} swap_prev={} paused_other={} same_prev_other={}", t.prev, t.sig, if t.raise_site == 0 { "-" } else { director::site_name(t.raise_site) }, t.occ, t.bombard, t.delay_after_sigaction, t.concurrent_other, t.other_first, t.swap_prev, t.paused_other, t.same_prev_other);
            match &res.end {
                End::Exit(0) if res.out.contains("DONE") || res.out.contains("BAD") => {}
                End::Timeout => {
                    inconclusive = Some(format!("trial timed out: {}", label));
                    continue;
                }
                other => {
                    bad.push(("chain-trial-died".into(), format!("{}: the process ended with {:?} (a default/ignore disposition called as a function, or a handler called with the wrong arguments?)", label, other)));
                    continue;
                }
            }
            if res.out.contains("ENVIRONMENT ") {
                inconclusive = Some(format!("environment: {}", res.out.lines().find(|l| l.starts_with("ENVIRONMENT")).unwrap_or("")));
                continue;
            }
            for l in res.out.lines().filter(|l| l.starts_with("BAD ")) {
                let s = if l.contains("did not run") || l.contains("ran 0 times") || l.contains("ran the previous handler 0") { "prev-not-called" }
                    else if l.contains("times") && l.contains("previous") { "prev-called-wrong-count" }
                    else if l.contains("before the previous") || l.contains("ran after") { "prev-not-first" }
                    else if l.contains("info") || l.contains("context") || l.contains("garbage") { "prev-wrong-arguments" }
                    else if l.contains("default/ignore") { "default-or-ignore-called" } else if l.contains("stale previous") { "stale-prev-chained" } else { "chain-misc" };
                bad.push((s.into(), format!("{} || {}", &l[4..], label)));
            }
            if let Some(st) = res.out.lines().find(|l| l.starts_with("STATS ")) {
                for (i, kv) in st[6..].split_whitespace().enumerate() {
                    if let Some(v) = kv.split('=').nth(1).and_then(|v| v.parse::<u64>().ok()) {
                        if i < 6 {
                            tot[i] += v;
                        }
                    }
                }
                let fb = st.contains("fallback_path=0");
                keys.insert(format!("{:?}:{}:{}#{}:{}:{}", t.prev, if t.sig >= rt { "rt" } else { "std" }, t.raise_site, t.occ, t.bombard, if fb { "slot" } else { "fallback" }));
                if samples.len() < 8 && !fb {
                    samples.push(J::s(&format!("{} -> {}", label, st)));
                }
            }
            if !bad.is_empty() && !crate::has_flag(args, "--keep-going") {
                break;
            }
        }
        let _ = rep;
        if !bad.is_empty() && !crate::has_flag(args, "--keep-going") {
            break;
        }
    }
    let mut nviol = 0;
    let mut seen = std::collections::HashSet::new();
    for (s, d) in bad.iter() {
        if seen.insert(s.clone()) {
            emit_violation("C04", s, d);
            nviol += 1;
        }
    }
    emit(&J::obj()
        .set("type", J::s("summary"))
        .set("workload", J::s("w_chain"))
        .set("seed", J::u(seed))
        .set("evaluations", J::u(n))
        .set("distinct_keys", J::arr(keys.iter().map(|k| J::s(k))))
        .set("samples", J::Arr(samples))
        .set("signals_sent", J::u(tot[0]))
        .set("dispatch_brackets_checked", J::u(tot[1]))
        .set("deliveries_handled_through_the_race_fallback", J::u(tot[2]))
        .set("nested_raises_fired", J::u(tot[3]))
        .set("previous_handler_calls", J::u(tot[4]))
        .set("violations", J::u(nviol))
        .set("wall_ms", J::u(crate::now_ms() - t0)));
    if nviol == 0 {
        if let Some(r) = inconclusive {
            emit(&J::obj().set("type", J::s("inconclusive")).set("reason", J::s(&r)));
            return 2;
        }
    }
    if nviol > 0 { 1 } else { 0 }
}

static REHOOK_DEPTH: AtomicU64 = AtomicU64::new(0);
static REHOOK_MAX_DEPTH: AtomicU64 = AtomicU64::new(0);
static REHOOK_RUNS: AtomicU64 = AtomicU64::new(0);
static REHOOK_PREV: AtomicUsize = AtomicUsize::new(0);

/// A well-behaved handler installed by the application AFTER the library took the signal over: it chains to whatever was there.
extern "C" fn h_late(sig: c_int, info: *mut siginfo_t, ctx: *mut c_void) {
    let d = REHOOK_DEPTH.fetch_add(1, Ordering::SeqCst) + 1;
    REHOOK_MAX_DEPTH.fetch_max(d, Ordering::SeqCst);
    REHOOK_RUNS.fetch_add(1, Ordering::SeqCst);
    let prev = REHOOK_PREV.load(Ordering::SeqCst);
    if prev > 1 && d < 32 {
        let f: extern "C" fn(c_int, *mut siginfo_t, *mut c_void) = unsafe { std::mem::transmute(prev) };
        f(sig, info, ctx);
    }
    REHOOK_DEPTH.fetch_sub(1, Ordering::SeqCst);
}

/// History: the library owns the signal; the application then installs its own handler on top, chaining to the library's;
/// another action is registered; one delivery. Every action runs once and the application's handler once - the library
/// must not take the application's handler for a "previous" one and call it back.
fn late_handler_probe() -> Option<String> {
    let res = fork::probe(20_000, false, |fd| {
        use fork::wr;
        let sig = libc::SIGUSR1;
        let runs = Arc::new(AtomicU64::new(0));
        let (r1, r2) = (runs.clone(), runs.clone());
        let _a = unsafe { signal_hook_registry::register(sig, move || { r1.fetch_add(1, Ordering::SeqCst); }) };
        unsafe {
            let mut old: libc::sigaction = std::mem::zeroed();
            let mut new: libc::sigaction = std::mem::zeroed();
            new.sa_sigaction = h_late as usize;
            new.sa_flags = libc::SA_SIGINFO | libc::SA_RESTART;
            libc::sigemptyset(&mut new.sa_mask);
            libc::sigaction(sig, &new, &mut old);
            REHOOK_PREV.store(old.sa_sigaction, Ordering::SeqCst);
        }
        let _b = unsafe { signal_hook_registry::register(sig, move || { r2.fetch_add(1, Ordering::SeqCst); }) };
        unsafe { libc::raise(sig) };
        wr(fd, &format!("LATE runs={} depth={} actions={}\n", REHOOK_RUNS.load(Ordering::SeqCst), REHOOK_MAX_DEPTH.load(Ordering::SeqCst), runs.load(Ordering::SeqCst)));
        wr(fd, "DONE\n");
        0
    });
    let line = res.out.lines().find(|l| l.starts_with("LATE ")).unwrap_or("").to_string();
    match res.end {
        End::Exit(0) if line == "LATE runs=1 depth=1 actions=2" => None,
        other => Some(format!("a handler the application installed on top of the library's (and that chains to it) plus a later registration: one delivery gave '{}' (expected runs=1 depth=1 actions=2), process ended {:?}: the dispatcher calls the application's handler back", line, other)),
    }
}

// ------------------------------------------------------------------------------------------
// A delivery stalled somewhere inside the dispatcher while the rest of the world moves on.

static SD_H: AtomicU64 = AtomicU64::new(0);
static SD_EXITS: AtomicU64 = AtomicU64::new(0);
static SD_N: AtomicU64 = AtomicU64::new(0);
#[allow(clippy::declare_interior_mutable_const)]
const SD0: AtomicU64 = AtomicU64::new(0);
static SD_SEQ: [AtomicU64; 64] = [SD0; 64];

/// Sites passed by the one delivery (only the victim thread has that class).
fn sd_observer(s: u32, _a: usize, _b: usize) {
    if crate::CLASS.with(|c| c.get()) & class::VICTIM == 0 {
        return;
    }
    let i = SD_N.fetch_add(1, Ordering::SeqCst) as usize;
    if i < 64 {
        SD_SEQ[i].store(s as u64, Ordering::SeqCst);
    }
    if s == site::DISPATCH_EXIT {
        SD_EXITS.fetch_add(1, Ordering::SeqCst);
    }
}

extern "C" fn h_sd(_sig: c_int, _info: *mut siginfo_t, _ctx: *mut c_void) {
    SD_H.fetch_add(1, Ordering::SeqCst);
}

/// One trial (in a forked child). Signal A has a real handler H of the application. T1 starts the first registration of A
/// and is held right after its sigaction() - the window is open. One delivery of A goes to T2, which is parked at the
/// `occ`-th arrival at `site` inside its dispatch (None: not parked, the sequence of sites it passes is reported). Then
/// T1 is let go (it completes unless T2 holds what it has to wait for), T3 makes the first registration of another
/// signal (which overwrites the race fallback, unless T2 holds what it has to wait for), and T2 goes on.
/// H must have run exactly once for that one delivery, wherever T2 stood meanwhile.
fn stalled_dispatch_child(fd: i32, pause: Option<(u32, u64)>) -> i32 {
    use fork::wr;
    let a = libc::SIGUSR1;
    let b = libc::SIGUSR2;
    crate::set_thread(1, class::MAIN);
    director::install();
    director::set_observer(Some(sd_observer));
    unsafe {
        crate::sig::install_raw(a, h_sd as usize, libc::SA_RESTART | libc::SA_SIGINFO);
    }
    director::set_rule(site::REG_AFTER_SIGACTION, RuleSpec { mode: mode::PAUSE, class_mask: class::MUTATOR, nth: 1, arg: 0, ..Default::default() });
    if let Some((s, occ)) = pause {
        director::set_rule(s, RuleSpec { mode: mode::PAUSE, class_mask: class::VICTIM, nth: occ, arg: 1, ..Default::default() });
    }
    let wait = |what: &str, f: &dyn Fn() -> bool, ms: u64| -> bool {
        let t0 = crate::now_ms();
        while !f() {
            std::thread::yield_now();
            if crate::now_ms() - t0 > ms {
                let _ = what;
                return false;
            }
        }
        true
    };
    let acts = Arc::new(AtomicU64::new(0));
    let acts2 = acts.clone();
    let t1_done = Arc::new(AtomicBool::new(false));
    let d1 = t1_done.clone();
    let t1 = std::thread::spawn(move || {
        crate::set_thread(20, class::MUTATOR);
        let r = unsafe { signal_hook_registry::register(a, move || { acts2.fetch_add(1, Ordering::SeqCst); }) };
        director::lib_exit();
        d1.store(true, Ordering::SeqCst);
        r.is_ok()
    });
    if !wait("T1 after sigaction", &|| director::parked_count(0) == 1, 5000) {
        wr(fd, "SDINC the registering thread never reached the point after its sigaction()\n");
        unsafe { libc::_exit(2) };
    }
    let stop = Arc::new(AtomicBool::new(false));
    let stop2 = stop.clone();
    let pth = Arc::new(AtomicUsize::new(0));
    let pth2 = pth.clone();
    let t2 = std::thread::spawn(move || {
        crate::set_thread(10, class::VICTIM);
        pth2.store(unsafe { libc::pthread_self() } as usize, Ordering::SeqCst);
        pool::victim_spin(&stop2);
    });
    wait("T2 up", &|| pth.load(Ordering::SeqCst) != 0, 5000);
    let exits = || SD_EXITS.load(Ordering::SeqCst);
    crate::sig::queue_thread(pth.load(Ordering::SeqCst) as libc::pthread_t, a, 1);
    if !wait("T2 parked or through", &|| director::parked_count(1) == 1 || exits() >= 1, 5000) {
        wr(fd, "SDINC the delivery neither parked nor finished\n");
        unsafe { libc::_exit(2) };
    }
    let parked = director::parked_count(1) == 1;
    // the rest of the world moves on
    director::rule_off(site::REG_AFTER_SIGACTION);
    director::open_gate(0);
    let t1_before = wait("T1 done", &|| t1_done.load(Ordering::SeqCst), 150);
    let t3_done = Arc::new(AtomicBool::new(false));
    let d3 = t3_done.clone();
    let t3 = std::thread::spawn(move || {
        crate::set_thread(21, class::KILLER);
        let r = unsafe { signal_hook_registry::register(b, || ()) };
        director::lib_exit();
        d3.store(true, Ordering::SeqCst);
        r.is_ok()
    });
    let t3_before = wait("T3 done", &|| t3_done.load(Ordering::SeqCst), 150);
    if let Some((s, _)) = pause {
        director::rule_off(s);
    }
    director::open_gate(1);
    let all = wait("everything finished", &|| t1_done.load(Ordering::SeqCst) && t3_done.load(Ordering::SeqCst) && exits() >= 1, 10_000);
    if !all {
        wr(fd, &format!("SDSTUCK t1_done={} t3_done={} delivery_finished={}\n", t1_done.load(Ordering::SeqCst), t3_done.load(Ordering::SeqCst), exits() >= 1));
        unsafe { libc::_exit(3) };
    }
    stop.store(true, Ordering::SeqCst);
    let _ = t2.join();
    let _ = t1.join();
    let _ = t3.join();
    // the sites the delivery passed, in order
    let n = (SD_N.load(Ordering::SeqCst) as usize).min(64);
    let seq: Vec<String> = (0..n).map(|i| SD_SEQ[i].load(Ordering::SeqCst).to_string()).collect();
    wr(fd, &format!("SD h={} acts={} parked={} t1_before={} t3_before={} seq={}\n", SD_H.load(Ordering::SeqCst), acts.load(Ordering::SeqCst), parked, t1_before, t3_before, seq.join(",")));
    wr(fd, "DONE\n");
    0
}

struct StalledReport {
    trials: u64,
    parked: u64,
    keys: Vec<String>,
    bad: Vec<String>,
    inconclusive: Option<String>,
}

fn stalled_dispatch_sweep() -> StalledReport {
    let mut rep = StalledReport { trials: 0, parked: 0, keys: Vec::new(), bad: Vec::new(), inconclusive: None };
    let field = |l: &str, k: &str| -> String { l.split_whitespace().find_map(|w| w.strip_prefix(&format!("{}=", k)).map(|v| v.to_string())).unwrap_or_default() };
    let run = |pause: Option<(u32, u64)>| -> (End, String) {
        let res = fork::probe(30_000, false, move |fd| stalled_dispatch_child(fd, pause));
        let line = res.out.lines().find(|l| l.starts_with("SD")).unwrap_or("").to_string();
        (res.end, line)
    };
    // the sites a delivery in the window passes when nobody interferes
    let (end, line) = run(None);
    rep.trials += 1;
    if !matches!(end, End::Exit(0)) || !line.starts_with("SD h=") {
        rep.inconclusive = Some(format!("calibration run ended {:?} '{}'", end, line));
        return rep;
    }
    if field(&line, "h") != "1" {
        rep.bad.push(format!("one delivery inside the window between sigaction() and publication, nobody stalled: '{}' (expected h=1)", line));
        return rep;
    }
    let seq: Vec<u32> = field(&line, "seq").split(',').filter_map(|x| x.parse().ok()).collect();
    let mut occ: std::collections::HashMap<u32, u64> = Default::default();
    for s in seq {
        let o = occ.entry(s).or_insert(0);
        *o += 1;
        let (s, o) = (s, *o);
        let (end, line) = run(Some((s, o)));
        rep.trials += 1;
        let name = format!("{}#{}", director::site_name(s), o);
        match end {
            End::Exit(0) if line.starts_with("SD h=") => {
                if field(&line, "parked") == "true" {
                    rep.parked += 1;
                }
                rep.keys.push(format!("{} parked={} T1_finished_meanwhile={} T3_finished_meanwhile={}", name, field(&line, "parked"), field(&line, "t1_before"), field(&line, "t3_before")));
                if field(&line, "h") != "1" {
                    rep.bad.push(format!(
                        "a delivery that arrived between sigaction() and the publication of the first registration was stalled at {} inside the dispatcher; meanwhile the registration completed: {}, another signal's first registration completed: {}; the application's previous handler ran {} times for that one delivery (actions {}), expected exactly once",
                        name, field(&line, "t1_before"), field(&line, "t3_before"), field(&line, "h"), field(&line, "acts")
                    ));
                }
            }
            End::Exit(2) | End::Timeout => {
                rep.inconclusive = Some(format!("trial {} ended {:?} '{}'", name, end, line));
                return rep;
            }
            other => {
                rep.bad.push(format!("a delivery stalled at {} inside the dispatcher while a registration completes and another begins: the process ended {:?} '{}'", name, other, line));
            }
        }
        if !rep.bad.is_empty() {
            break;
        }
    }
    rep
}

fn classify(l: &str) -> &'static str {
    if l.contains("did not run") || l.contains("ran 0 times") || l.contains("ran the previous handler 0") { "prev-not-called" }
    else if l.contains("times") && l.contains("previous") { "prev-called-wrong-count" }
    else if l.contains("before the previous") || l.contains("ran after") { "prev-not-first" }
    else if l.contains("info") || l.contains("context") || l.contains("garbage") { "prev-wrong-arguments" }
    else if l.contains("default/ignore") { "default-or-ignore-called" } else { "chain-misc" }
}

/// `--mode istep`: a delivery nested on the registering thread at the k-th instruction after every hook arrival of
/// the first registration (and after the call itself), for all k. Sharded over child processes.
fn istep_main(args: &[String], seed: u64, sigs: &[c_int]) -> i32 {
    let of = arg_u64(args, "--of", 0);
    let stride = arg_u64(args, "--stride", 1).max(1);
    if !crate::istep::supported() {
        emit(&J::obj().set("type", J::s("inconclusive")).set("reason", J::s("instruction stepping needs x86-64 Linux")));
        return 2;
    }
    if of == 0 {
        let n = arg_u64(args, "--shards", 8).max(1);
        let exe = std::env::current_exe().expect("exe");
        let mut kids = Vec::new();
        for i in 0..n {
            let mut a: Vec<String> = vec!["w_chain".into()];
            a.extend(args.iter().cloned());
            a.extend(["--shard".to_string(), i.to_string(), "--of".to_string(), n.to_string()]);
            kids.push(std::process::Command::new(&exe).args(&a).stdout(std::process::Stdio::piped()).spawn().expect("spawn shard"));
        }
        let mut code = 0;
        for k in kids {
            let out = k.wait_with_output().expect("shard output");
            print!("{}", String::from_utf8_lossy(&out.stdout));
            let c = out.status.code().unwrap_or(101);
            if c == 1 || (c != 0 && code == 0) {
                code = c;
            }
        }
        return code;
    }
    let shard = arg_u64(args, "--shard", 0);
    let t0 = crate::now_ms();
    let pre_sites = [site::REG_CLONED, site::REG_BEFORE_FALLBACK, site::REG_AFTER_FALLBACK];
    let post_sites = [site::REG_AFTER_SIGACTION, site::REG_BEFORE_PUBLISH, site::REG_DONE];
    let hl_sites = [site::HL_W_LOCKED, site::HL_W_ALLOC, site::HL_W_SWAPPED, site::HL_B_FIRST, site::HL_B_FLIP, site::HL_B_DONE, site::HL_W_FREE, site::HL_W_FREED];
    let mut bad: Vec<(String, String)> = Vec::new();
    let mut keys = std::collections::HashSet::new();
    let mut samples = Vec::new();
    let mut points = std::collections::HashSet::new();
    let (mut trials, mut fired, mut windows, mut brackets, mut fallback) = (0u64, 0u64, 0u64, 0u64, 0u64);
    let mut inconclusive: Option<String> = None;
    let mut idx = 0u64;
    'all: for (pi, prev) in [Prev::Siginfo, Prev::Plain, Prev::Default, Prev::Ignore].iter().enumerate() {
        let real = matches!(prev, Prev::Plain | Prev::Siginfo);
        let mut wins: Vec<(u32, u64)> = Vec::new();
        if real {
            wins.push((0, 1));
            wins.extend(pre_sites.iter().map(|s| (*s, 1)));
            wins.extend(hl_sites.iter().map(|s| (*s, 1)));
        }
        wins.extend(post_sites.iter().map(|s| (*s, 1)));
        wins.extend(hl_sites.iter().filter(|s| **s != site::HL_W_LOCKED).map(|s| (*s, 2)));
        for other_first in [false, true] {
            for w in wins.iter() {
                let mut gap = 0u64;
                let mut k = u64::MAX - 1;
                loop {
                    let measuring = k == u64::MAX - 1;
                    if !measuring {
                        idx += 1;
                        if idx % of != shard || (stride > 1 && (idx / of + seed) % stride != 0) {
                            k += 1;
                            if k > gap + 1 {
                                break;
                            }
                            continue;
                        }
                    }
                    let sig = sigs[((idx + pi as u64 + seed) % sigs.len() as u64) as usize];
                    let t = Trial { prev: *prev, sig, raise_site: w.0, occ: w.1, bombard: false, delay_after_sigaction: false, concurrent_other: false, other_first, swap_prev: false, paused_other: false, same_prev_other: false, step_k: k };
                    let tc = t.clone();
                    let res = fork::probe(60_000, false, move |fd| child(&tc, fd));
                    let label = format!("prev={:?} signal={} step-from={}#{} k={} other_first={}", t.prev, t.sig, if w.0 == 0 { "CALL" } else { director::site_name(w.0) }, w.1, k, other_first);
                    match &res.end {
                        End::Exit(0) if res.out.contains("DONE") || res.out.contains("BAD") => {}
                        End::Timeout => {
                            inconclusive = Some(format!("trial timed out: {}", label));
                            break 'all;
                        }
                        other => {
                            bad.push(("chain-trial-died".into(), format!("{}: the process ended with {:?} (a default/ignore disposition called as a function, or a handler called with the wrong arguments?)", label, other)));
                            break 'all;
                        }
                    }
                    if res.out.contains("ENVIRONMENT ") {
                        inconclusive = Some(format!("environment: {}", res.out.lines().find(|l| l.starts_with("ENVIRONMENT")).unwrap_or("")));
                        break 'all;
                    }
                    let stepline = res.out.lines().find(|l| l.starts_with("STEP ")).unwrap_or("STEP gap=0 fired=0 rip=0x0").to_string();
                    let field = |name: &str| -> u64 {
                        stepline.split_whitespace().find_map(|kv| kv.strip_prefix(name)).map(|v| if let Some(h) = v.strip_prefix("0x") { u64::from_str_radix(h, 16).unwrap_or(0) } else { v.parse().unwrap_or(0) }).unwrap_or(0)
                    };
                    if measuring {
                        gap = field("gap=").min(3000);
                        windows += 1;
                    } else {
                        trials += 1;
                        if field("fired=") > 0 {
                            fired += 1;
                            points.insert((pi, other_first, w.0, w.1, k));
                            keys.insert(format!("istep:{:?}:{}#{}:{}", t.prev, w.0, w.1, other_first));
                        }
                    }
                    for l in res.out.lines().filter(|l| l.starts_with("BAD ")) {
                        bad.push((classify(l).into(), format!("{} || {}", &l[4..], label)));
                    }
                    if let Some(st) = res.out.lines().find(|l| l.starts_with("STATS ")) {
                        for kv in st[6..].split_whitespace() {
                            if let Some(v) = kv.strip_prefix("brackets=") {
                                brackets += v.parse::<u64>().unwrap_or(0);
                            }
                            if let Some(v) = kv.strip_prefix("fallback_path=") {
                                fallback += v.parse::<u64>().unwrap_or(0);
                            }
                        }
                        if samples.len() < 4 && !measuring && field("fired=") > 0 && !st.contains("fallback_path=0") {
                            samples.push(J::s(&format!("{} -> {} {}", label, stepline, st)));
                        }
                    }
                    if !bad.is_empty() {
                        break 'all;
                    }
                    if measuring {
                        k = 1;
                    } else {
                        k += 1;
                        if k > gap + 1 {
                            break;
                        }
                    }
                }
            }
        }
    }
    let mut nviol = 0;
    let mut seen = std::collections::HashSet::new();
    for (s, d) in bad.iter() {
        if seen.insert(s.clone()) {
            emit_violation("C04", s, d);
            nviol += 1;
        }
    }
    emit(&J::obj()
        .set("type", J::s("summary"))
        .set("workload", J::s("w_chain"))
        .set("mode", J::s("istep"))
        .set("seed", J::u(seed))
        .set("shard", J::u(shard))
        .set("evaluations", J::u(fired))
        .set("distinct_keys", J::arr(keys.iter().map(|k| J::s(k))))
        .set("samples", J::Arr(samples))
        .set("step_trials", J::u(trials))
        .set("step_trials_fired", J::u(fired))
        .set("step_windows_measured", J::u(windows))
        .set("step_distinct_instruction_points", J::u(points.len() as u64))
        .set("dispatch_brackets_checked", J::u(brackets))
        .set("deliveries_handled_through_the_race_fallback", J::u(fallback))
        .set("violations", J::u(nviol))
        .set("wall_ms", J::u(crate::now_ms() - t0)));
    if nviol == 0 {
        if let Some(r) = inconclusive {
            emit(&J::obj().set("type", J::s("inconclusive")).set("reason", J::s(&r)));
            return 2;
        }
    }
    if nviol > 0 { 1 } else { 0 }
}
