//! w_step: interleavings at instruction granularity (see `istep`).
//!
//! --mode scan   C09/C10: a real delivery of the watched signal nested on the consumer thread at the k-th
//!               instruction of every window of its scan of that signal's slot (from the IT_SCAN / EX_LOAD /
//!               channel hook arrivals to the next one), for all k, three exfiltrators, slot empty / set / two
//!               records queued. Afterwards: every delivery whose store began is reported by a yield that came
//!               later, or a wake-up byte is outstanding and the next pending() reports it; never more yields
//!               than deliveries; records are byte copies of one delivery each, in order.
//! --mode dual   C10/C09: the same windows, but at the k-th instruction a second, lazily drained `Pending` batch of
//!               the same instance is drained completely by a helper thread (Pending is owned and Send).
//! --mode backlog C09/C03: 1500 deliveries on the consumer's own thread with nothing draining the self-pipe: each must return.
//! --mode chan   C06/C07/C08: nested channel operations at the k-th instruction of every window of send / recv.
//!
//! The sweep is sharded (--shard i --of n); the parent (no --shard) spawns the shards and relays their output.

use std::collections::HashSet;
use std::sync::atomic::{AtomicBool, AtomicI32, AtomicU64, AtomicUsize, Ordering};
use std::sync::Arc;

use libc::{c_int, siginfo_t};
use signal_hook::iterator::exfiltrator::{Exfiltrator, SignalOnly, WithOrigin, WithRawSiginfo};
use signal_hook::iterator::SignalsInfo;
use signal_hook::low_level::channel::Channel;

use crate::director;
use crate::evlog::{self, kind};
use crate::istep;
use crate::jsonw::{emit, emit_violation, J};
use crate::p_channel::{self as pc, Val};
use crate::w_iter::Describe;
use crate::{arg_str, arg_u64, class, site};

const CONSUMER: u32 = 5;
const HELPER: u32 = 6;

#[allow(clippy::declare_interior_mutable_const)]
const Z: AtomicU64 = AtomicU64::new(0);
static CLOCK: AtomicU64 = AtomicU64::new(1);
static DELIV: [AtomicU64; 128] = [Z; 128];
static YIELDS: [AtomicU64; 128] = [Z; 128];
static STORE_STAMP: [AtomicU64; 128] = [Z; 128];
static YIELD_STAMP: [AtomicU64; 128] = [Z; 128];
static OPEN_BRACKETS: AtomicU64 = AtomicU64::new(0);
static THE_SIG: AtomicI32 = AtomicI32::new(0);
static THE_SLOT: AtomicUsize = AtomicUsize::new(0);
static NO_INFO: AtomicU64 = AtomicU64::new(0);
static NEXT_SEQ: AtomicU64 = AtomicU64::new(1);
static NESTED_SENT: AtomicU64 = AtomicU64::new(0);

// witness: byte copy and arrival order of every delivery, by sequence number
const WIT_N: usize = 1 << 15;
#[repr(C)]
struct WitSlot {
    seq: AtomicU64,
    order: AtomicU64,
    bytes: std::cell::UnsafeCell<[u8; 128]>,
}
unsafe impl Sync for WitSlot {}
#[allow(clippy::declare_interior_mutable_const)]
const W0: WitSlot = WitSlot { seq: AtomicU64::new(0), order: AtomicU64::new(0), bytes: std::cell::UnsafeCell::new([0u8; 128]) };
static WIT: [WitSlot; WIT_N] = [W0; WIT_N];

fn witness(info: &siginfo_t) {
    if info.si_code != crate::sig::SI_QUEUE {
        NO_INFO.fetch_add(1, Ordering::SeqCst);
    }
    let seq = crate::sig::si_value(info) as u64;
    let slot = &WIT[(seq as usize) % WIT_N];
    unsafe { std::ptr::copy_nonoverlapping(info as *const siginfo_t as *const u8, (*slot.bytes.get()).as_mut_ptr(), 128) };
    let sig = (info.si_signo as usize) % 128;
    let n = DELIV[sig].fetch_add(1, Ordering::SeqCst) + 1;
    slot.order.store(n, Ordering::SeqCst);
    slot.seq.store(seq, Ordering::SeqCst);
}

// the consumer's arrivals during the calibration scan: (site, a, b)
static REC_ON: AtomicBool = AtomicBool::new(false);
static REC: std::sync::Mutex<Vec<(u32, usize, usize)>> = std::sync::Mutex::new(Vec::new());
static LAST_SCAN_SIG: AtomicUsize = AtomicUsize::new(0);
/// whether the consumer has begun the scan part of the batch being recorded (before that: flush)
static SCAN_STARTED: AtomicBool = AtomicBool::new(false);

fn observer(s: u32, a: usize, b: usize) {
    if s == site::DISPATCH_ENTER {
        OPEN_BRACKETS.fetch_add(1, Ordering::SeqCst);
        return;
    } else if s == site::DISPATCH_EXIT {
        OPEN_BRACKETS.fetch_sub(1, Ordering::SeqCst);
        return;
    }
    if s == site::EX_STORE {
        if a == THE_SLOT.load(Ordering::SeqCst) {
            let sig = THE_SIG.load(Ordering::SeqCst) as usize % 128;
            STORE_STAMP[sig].store(CLOCK.fetch_add(1, Ordering::SeqCst), Ordering::SeqCst);
        }
        return;
    }
    if crate::tid() == CONSUMER && crate::depth() == 0 {
        let in_flush = !SCAN_STARTED.load(Ordering::Relaxed) && s != site::IT_SCAN;
        if s == site::IT_SCAN {
            LAST_SCAN_SIG.store(a, Ordering::Relaxed);
            SCAN_STARTED.store(true, Ordering::Relaxed);
        } else if s == site::EX_LOAD && LAST_SCAN_SIG.load(Ordering::Relaxed) == THE_SIG.load(Ordering::Relaxed) as usize {
            THE_SLOT.store(a, Ordering::SeqCst);
        }
        if REC_ON.load(Ordering::Relaxed) && (in_flush || LAST_SCAN_SIG.load(Ordering::Relaxed) == THE_SIG.load(Ordering::Relaxed) as usize) {
            // not inside a handler: the consumer is draining the self-pipe or scanning the slot of the signal
            if let Ok(mut g) = REC.try_lock() {
                g.push((s, a, b));
            }
        }
    }
}

struct Acc {
    trials: u64,
    fired: u64,
    windows: u64,
    points: HashSet<(String, u32, u64, u64)>,
    keys: HashSet<String>,
    samples: Vec<J>,
    bad: Vec<(String, String, String)>,
    inconclusive: Option<String>,
    yields: u64,
    records_checked: u64,
    second_scan_needed: u64,
    helper_scans: u64,
    nested_ops: u64,
}

impl Acc {
    fn new() -> Acc {
        Acc {
            trials: 0, fired: 0, windows: 0, points: HashSet::new(), keys: HashSet::new(), samples: vec![], bad: vec![], inconclusive: None,
            yields: 0, records_checked: 0, second_scan_needed: 0, helper_scans: 0, nested_ops: 0,
        }
    }
    fn bad(&mut self, prop: &str, sig: &str, detail: String) {
        if self.bad.len() < 6 {
            self.bad.push((prop.to_string(), sig.to_string(), detail));
        }
    }
}

struct Shared {
    cmd: AtomicU64,
    go: AtomicU64,
    done: AtomicU64,
    h_go: AtomicU64,
    h_done: AtomicU64,
    h_arrived: AtomicU64,
    problems: std::sync::Mutex<Vec<(String, String)>>,
    seen: std::sync::Mutex<HashSet<u64>>,
    consumer_pth: AtomicUsize,
}

fn note_item<O: Describe>(item: &O, sh: &Shared, last_order: &mut u64) {
    // the window ends where the library hands the item over (the harness's own locks must not be stepped)
    if istep::is_active() {
        istep::disarm();
    }
    let (sig, seq, bytes, problem) = item.describe();
    let s = (sig as usize) % 128;
    let y = YIELDS[s].fetch_add(1, Ordering::SeqCst) + 1;
    let d = DELIV[s].load(Ordering::SeqCst);
    YIELD_STAMP[s].store(CLOCK.fetch_add(1, Ordering::SeqCst), Ordering::SeqCst);
    let mut p = sh.problems.lock().unwrap();
    if sig != THE_SIG.load(Ordering::SeqCst) {
        p.push(("yielded-unwatched".into(), format!("yielded signal {} which was never delivered / is not the one under test", sig)));
    }
    if y > d {
        p.push(("more-yields-than-deliveries".into(), format!("yield number {} of signal {} while only {} deliveries of it had begun", y, sig, d)));
    }
    if let Some(pr) = problem {
        p.push(("record-not-faithful".into(), pr));
    }
    if let (Some(seq), Some(b)) = (seq, bytes) {
        let slot = &WIT[(seq as usize) % WIT_N];
        if slot.seq.load(Ordering::SeqCst) != seq {
            p.push(("record-matches-no-delivery".into(), format!("record with seq {} (signal {}) matches no delivery the witness saw", seq, sig)));
        } else {
            let w = unsafe { *slot.bytes.get() };
            if w != b {
                let at = (0..128).find(|i| w[*i] != b[*i]).unwrap_or(0);
                p.push(("record-not-faithful".into(), format!("record seq {} differs from the delivered siginfo at byte {}", seq, at)));
            }
            let o = slot.order.load(Ordering::SeqCst);
            if o <= *last_order {
                p.push(("records-out-of-order".into(), format!("record seq {} (delivery #{}) came out after delivery #{} of the same signal", seq, o, *last_order)));
            }
            *last_order = o;
        }
        if !sh.seen.lock().unwrap().insert(seq) {
            p.push(("delivery-reported-twice".into(), format!("the record of delivery seq {} was yielded twice", seq)));
        }
    }
}

fn scan_action(_k: u64, _rip: usize) {
    let sig = THE_SIG.load(Ordering::SeqCst);
    let seq = NEXT_SEQ.fetch_add(1, Ordering::SeqCst);
    NESTED_SENT.fetch_add(1, Ordering::SeqCst);
    crate::sig::queue_self(sig, seq as usize);
}

static SH_PTR: AtomicUsize = AtomicUsize::new(0);
static TRIAL_NO: AtomicU64 = AtomicU64::new(0);

fn dual_action(_k: u64, _rip: usize) {
    let sh = unsafe { &*(SH_PTR.load(Ordering::SeqCst) as *const Shared) };
    let t = TRIAL_NO.load(Ordering::SeqCst);
    sh.h_go.store(t, Ordering::SeqCst);
    let mut i = 0u64;
    while sh.h_done.load(Ordering::SeqCst) != t {
        i += 1;
        if i % 64 == 0 {
            unsafe { libc::sched_yield() };
        }
    }
}

/// Set by a consuming thread that unwinds (a panic inside the iterator).
static THREAD_DIED: AtomicBool = AtomicBool::new(false);

struct DiedOnUnwind;

impl Drop for DiedOnUnwind {
    fn drop(&mut self) {
        if std::thread::panicking() {
            THREAD_DIED.store(true, Ordering::SeqCst);
        }
    }
}

fn wait_for(what: &AtomicU64, v: u64, ms: u64) -> bool {
    let t0 = crate::now_ms();
    let mut i = 0u64;
    while what.load(Ordering::SeqCst) != v {
        i += 1;
        if i % 256 == 0 {
            if THREAD_DIED.load(Ordering::SeqCst) {
                return false;
            }
            std::thread::yield_now();
            if crate::now_ms() - t0 > ms {
                return false;
            }
        }
    }
    true
}

/// One exfiltrator: calibrate the windows of the consumer's scan of the signal's slot, then sweep them.
#[allow(clippy::too_many_arguments)]
fn iter_sweep<E>(ename: &'static str, exf: E, dual: bool, shard: u64, of: u64, stride: u64, seed: u64, acc: &mut Acc)
where
    E: Exfiltrator + Send + 'static,
    E::Output: Describe + Send,
    E::Storage: Sync,
{
    let sig = libc::SIGUSR2;
    let other = libc::SIGUSR1;
    THE_SIG.store(sig, Ordering::SeqCst);
    THE_SLOT.store(0, Ordering::SeqCst);
    for a in [&DELIV, &YIELDS, &STORE_STAMP, &YIELD_STAMP] {
        a[sig as usize].store(0, Ordering::SeqCst);
    }
    let fds_before = crate::sig::open_fds();
    // the watched number is listed twice: listing a signal again must not register it again
    let mut signals = match SignalsInfo::with_exfiltrator([other, sig, sig], exf) {
        Ok(s) => s,
        Err(e) => {
            acc.inconclusive = Some(format!("cannot create the instance: {}", e));
            return;
        }
    };
    let new: Vec<c_int> = crate::sig::open_fds().into_iter().filter(|f| !fds_before.contains(f)).collect();
    if new.len() != 2 {
        acc.inconclusive = Some(format!("could not identify the instance's descriptors: {:?}", new));
        return;
    }
    let readfd = new[0];
    {
        // history: an add_signal was refused with the documented panic (caught by the application), then the watched
        // signal is added again, which is documented as a no-op
        let h = signals.handle();
        let prev_hook = std::panic::take_hook();
        std::panic::set_hook(Box::new(|_| {}));
        let r = std::panic::catch_unwind(std::panic::AssertUnwindSafe(|| h.add_signal(libc::SIGKILL)));
        std::panic::set_hook(prev_hook);
        if r.is_ok() {
            acc.bad("C10", "setup", "add_signal(SIGKILL) did not panic".to_string());
        }
        // should the documented no-op go as far as a new registration, a delivery arrives the moment it is published
        director::set_rule(site::REG_DONE, director::RuleSpec { mode: director::mode::RAISE, class_mask: class::MAIN, nth: 1, arg: sig as usize, ..Default::default() });
        if h.add_signal(sig).is_err() {
            acc.bad("C10", "setup", "re-adding a watched signal failed".to_string());
        }
        director::clear_rules();
        director::lib_exit();
    }
    let sh = Arc::new(Shared {
        cmd: AtomicU64::new(0), go: AtomicU64::new(0), done: AtomicU64::new(0), h_go: AtomicU64::new(0), h_done: AtomicU64::new(0), h_arrived: AtomicU64::new(0),
        problems: std::sync::Mutex::new(Vec::new()), seen: std::sync::Mutex::new(HashSet::new()), consumer_pth: AtomicUsize::new(0),
    });
    SH_PTR.store(Arc::as_ptr(&sh) as usize, Ordering::SeqCst);
    let (tx, rx) = std::sync::mpsc::channel::<signal_hook::iterator::backend::Pending<E>>();
    // helper: drains a batch handed over by the consumer when told to
    let hj = {
        let sh = sh.clone();
        std::thread::spawn(move || {
            crate::set_thread(HELPER, class::VICTIM);
            let _died = DiedOnUnwind;
            let mut last_order = 0u64;
            while let Ok(p2) = rx.recv() {
                let t = TRIAL_NO.load(Ordering::SeqCst);
                sh.h_arrived.store(t, Ordering::SeqCst);
                let mut i = 0u64;
                while sh.h_go.load(Ordering::SeqCst) != t {
                    i += 1;
                    if i % 64 == 0 {
                        std::thread::yield_now();
                    }
                }
                for item in p2 {
                    note_item(&item, &sh, &mut last_order);
                }
                director::flush_counts();
                sh.h_done.store(t, Ordering::SeqCst);
            }
        })
    };
    let cj = {
        let sh = sh.clone();
        std::thread::spawn(move || {
            crate::set_thread(CONSUMER, class::CONSUMER);
            let _died = DiedOnUnwind;
            sh.consumer_pth.store(unsafe { libc::pthread_self() } as usize, Ordering::SeqCst);
            let mut served = 0u64;
            let mut last_order = 0u64;
            loop {
                let mut i = 0u64;
                while sh.go.load(Ordering::SeqCst) == served {
                    i += 1;
                    if i % 64 == 0 {
                        std::thread::yield_now();
                    }
                }
                served += 1;
                match sh.cmd.load(Ordering::SeqCst) {
                    1 => {
                        for item in signals.pending() {
                            note_item(&item, &sh, &mut last_order);
                        }
                    }
                    3 => {
                        let p2 = signals.pending();
                        let _ = tx.send(p2);
                        let p1 = signals.pending();
                        for item in p1 {
                            note_item(&item, &sh, &mut last_order);
                        }
                    }
                    _ => {
                        sh.done.store(served, Ordering::SeqCst);
                        break;
                    }
                }
                // a stepping that is still on ends here
                if istep::is_active() {
                    istep::disarm();
                }
                director::flush_counts();
                sh.done.store(served, Ordering::SeqCst);
            }
            drop(signals);
        })
    };
    while sh.consumer_pth.load(Ordering::SeqCst) == 0 {
        std::thread::yield_now();
    }
    let cpth = sh.consumer_pth.load(Ordering::SeqCst) as libc::pthread_t;
    let mut served = 0u64;
    let run_cmd = |cmd: u64, served: &mut u64| -> bool {
        sh.cmd.store(cmd, Ordering::SeqCst);
        *served += 1;
        sh.go.store(*served, Ordering::SeqCst);
        wait_for(&sh.done, *served, 20_000)
    };
    let wake_missing = std::cell::Cell::new(0u64);
    let deliver = |n: u64| -> bool {
        for _ in 0..n {
            let d0 = DELIV[sig as usize].load(Ordering::SeqCst);
            let seq = NEXT_SEQ.fetch_add(1, Ordering::SeqCst);
            crate::sig::queue_thread(cpth, sig, seq as usize);
            let t0 = crate::now_ms();
            while DELIV[sig as usize].load(Ordering::SeqCst) == d0 || OPEN_BRACKETS.load(Ordering::SeqCst) != 0 {
                std::thread::yield_now();
                if crate::now_ms() - t0 > 10_000 {
                    return false;
                }
            }
            // the consumer is idle and has not drained since: the delivery must have left a wake-up byte
            if crate::sig::fionread(readfd) <= 0 {
                wake_missing.set(wake_missing.get() + 1);
            }
        }
        true
    };
    // dry scan: learn the slot
    if !run_cmd(1, &mut served) {
        acc.inconclusive = Some("consumer did not answer".into());
        return;
    }
    {
        let (d0, y0) = (DELIV[sig as usize].load(Ordering::SeqCst), YIELDS[sig as usize].load(Ordering::SeqCst));
        if ename != "SignalOnly" && y0 != d0 {
            acc.bad("C10", "record-count", format!("{}: {} records for {} deliveries that arrived while a watched signal was being added again (a documented no-op)", ename, y0, d0));
            return;
        }
    }
    let presets: &[u64] = if dual { &[1, 2] } else { &[0, 1, 2] };
    let scan_cmd = if dual { 3 } else { 1 };
    let mut trial_idx = 0u64;
    'outer: for &preset in presets {
        // ---- calibration: which hook arrivals does the scan of this slot pass, and how long is each window
        if !deliver(preset) {
            acc.inconclusive = Some("delivery did not arrive".into());
            break;
        }
        REC.lock().unwrap().clear();
        SCAN_STARTED.store(false, Ordering::SeqCst);
        REC_ON.store(true, Ordering::SeqCst);
        TRIAL_NO.fetch_add(1, Ordering::SeqCst);
        if dual {
            // the helper drains after the consumer is done
            let t = TRIAL_NO.load(Ordering::SeqCst);
            sh.cmd.store(3, Ordering::SeqCst);
            served += 1;
            sh.go.store(served, Ordering::SeqCst);
            if !wait_for(&sh.done, served, 20_000) {
                acc.inconclusive = Some("consumer did not answer".into());
                break;
            }
            sh.h_go.store(t, Ordering::SeqCst);
            if !wait_for(&sh.h_done, t, 20_000) {
                acc.inconclusive = Some("helper did not answer".into());
                break;
            }
        } else if !run_cmd(1, &mut served) {
            acc.inconclusive = Some("consumer did not answer".into());
            break;
        }
        REC_ON.store(false, Ordering::SeqCst);
        let rec: Vec<(u32, usize, usize)> = REC.lock().unwrap().clone();
        // windows: (site, a, b, occurrence among equal triples)
        let mut windows: Vec<(u32, usize, usize, u64)> = Vec::new();
        for (i, r) in rec.iter().enumerate() {
            // the second argument of the channel sites is the queue content, which differs from run to run
            let anyb = r.0 != site::IT_SCAN && r.0 != site::EX_LOAD;
            let occ = rec[..i].iter().filter(|x| x.0 == r.0 && x.1 == r.1 && (anyb || x.2 == r.2)).count() as u64 + 1;
            windows.push((r.0, r.1, if anyb { usize::MAX } else { r.2 }, occ));
        }
        if windows.is_empty() {
            acc.inconclusive = Some(format!("{}: the scan of the slot passed no hook site", ename));
            break;
        }
        let _ = run_cmd(1, &mut served);
        for (wi, w) in windows.iter().enumerate() {
            if dual && w.3 == 1 && (w.0 == site::IT_FLUSH_BEGIN || w.0 == site::IT_FLUSH_END) {
                // the flush of the first of the two pending() calls: the second batch does not exist yet (and the window
                // runs into the harness's own hand-over code)
                continue;
            }
            // measure the window with an action that never fires
            let mut gap = 0u64;
            let mut k = u64::MAX - 1;
            // every k is run twice: the extra delivery that probes for a wake-up byte comes either right after the interrupted
            // batch (before anything else is drained) or only after the follow-up batch has been checked (it would otherwise
            // report a signal whose own flag the interrupted scan had wiped)
            let mut probe_first = false;
            loop {
                let measuring = k == u64::MAX - 1;
                if !measuring && !probe_first {
                    trial_idx += 1;
                    if trial_idx % of != shard || (stride > 1 && (trial_idx / of + seed) % stride != 0) {
                        k += 1;
                        if k > gap + 1 {
                            break;
                        }
                        continue;
                    }
                }
                // --- one trial
                THREAD_DIED.store(false, Ordering::SeqCst);
                let d_before = DELIV[sig as usize].load(Ordering::SeqCst);
                let y_before = YIELDS[sig as usize].load(Ordering::SeqCst);
                if !deliver(preset) {
                    acc.inconclusive = Some("delivery did not arrive".into());
                    break 'outer;
                }
                let t = TRIAL_NO.fetch_add(1, Ordering::SeqCst) + 1;
                istep::plan_for(CONSUMER, w.0, w.3, k, 20_000, w.1 as u64, w.2 as u64, true, if dual { dual_action } else { scan_action });
                let nested_before = NESTED_SENT.load(Ordering::SeqCst);
                if !run_cmd(scan_cmd, &mut served) {
                    // the consumer does not come back: a thread that died inside the iterator is a verdict, anything else is not
                    if THREAD_DIED.load(Ordering::SeqCst) {
                        acc.bad("C10", "consumer-panicked", format!("{}: a consuming thread panicked inside the iterator (pending() must never panic) [window {}#{} k {}]", ename, director::site_name(w.0), w.3, k));
                    }
                    acc.inconclusive = Some(format!("{}: consumer did not finish its scan (window {} k {})", ename, wi, k));
                    break 'outer;
                }
                istep::cancel_plan(CONSUMER);
                // one more delivery before anything else is drained: it must leave a wake-up byte (checked inside `deliver`),
                // whatever the interrupted scan and the delivery nested in it did to the instance
                if probe_first && !deliver(1) {
                    acc.inconclusive = Some("delivery did not arrive".into());
                    break 'outer;
                }
                let st = istep::state_of(CONSUMER);
                let armed = st.armed_n.load(Ordering::SeqCst) > 0;
                let fired = st.fired.load(Ordering::SeqCst) > 0;
                let rip = st.fired_rip.load(Ordering::SeqCst) as usize;
                if dual {
                    if !fired {
                        sh.h_go.store(t, Ordering::SeqCst);
                    }
                    if !wait_for(&sh.h_done, t, 20_000) {
                        acc.inconclusive = Some("helper did not answer".into());
                        break 'outer;
                    }
                    acc.helper_scans += 1;
                }
                if measuring {
                    if !armed {
                        acc.inconclusive = Some(format!("{}: window {} ({}) was not reached again", ename, wi, director::site_name(w.0)));
                        break 'outer;
                    }
                    gap = crate::istep::LAST_GAP[CONSUMER as usize].load(Ordering::SeqCst).min(4000);
                    acc.windows += 1;
                } else {
                    acc.trials += 1;
                    if fired {
                        acc.fired += 1;
                        acc.points.insert((format!("{}{}{}", ename, preset, dual), w.0, w.3, k));
                        acc.keys.insert(format!("{}:{}:p{}:{}#{}", if dual { "dual" } else { "scan" }, ename, preset, director::site_name(w.0), w.3));
                    }
                }
                // --- verdicts
                let nested = NESTED_SENT.load(Ordering::SeqCst) - nested_before;
                let label = format!("{} {} preset={} window={}#{} k={} probe-{} fired={} rip={:#x}", if dual { "dual" } else { "scan" }, ename, preset, director::site_name(w.0), w.3, k, if probe_first { "first" } else { "last" }, fired, rip);
                let reported = |s: usize| STORE_STAMP[s].load(Ordering::SeqCst) < YIELD_STAMP[s].load(Ordering::SeqCst) || STORE_STAMP[s].load(Ordering::SeqCst) == 0;
                let s = sig as usize;
                if OPEN_BRACKETS.load(Ordering::SeqCst) != 0 {
                    acc.inconclusive = Some("a delivery is still open at the check point".into());
                    break 'outer;
                }
                if !reported(s) {
                    // unreported delivery: a wake-up byte must be outstanding, and the next batch must have it
                    if crate::sig::fionread(readfd) <= 0 {
                        acc.bad("C09", "unreported-and-no-wakeup", format!(
                            "after the scan a delivery of signal {} (store began at stamp {}) is unreported (last yield stamp {}) and no wake-up byte is outstanding: wait() would block with the signal pending [{}]",
                            sig, STORE_STAMP[s].load(Ordering::SeqCst), YIELD_STAMP[s].load(Ordering::SeqCst), label));
                    }
                    acc.second_scan_needed += 1;
                    if !run_cmd(1, &mut served) {
                        acc.inconclusive = Some("consumer did not answer".into());
                        break 'outer;
                    }
                    if !reported(s) {
                        acc.bad("C09", "delivery-lost-in-scan", format!(
                            "a delivery of signal {} whose store began at stamp {} was reported neither by the interrupted scan nor by the next one (last yield stamp {}) [{}]",
                            sig, STORE_STAMP[s].load(Ordering::SeqCst), YIELD_STAMP[s].load(Ordering::SeqCst), label));
                    }
                } else if !run_cmd(1, &mut served) {
                    acc.inconclusive = Some("consumer did not answer".into());
                    break 'outer;
                }
                if !probe_first {
                    // the probing delivery comes last in this variant: wake-up byte (inside `deliver`), then reported by a batch
                    if !deliver(1) {
                        acc.inconclusive = Some("delivery did not arrive".into());
                        break 'outer;
                    }
                    if !run_cmd(1, &mut served) {
                        acc.inconclusive = Some("consumer did not answer".into());
                        break 'outer;
                    }
                    if !reported(s) {
                        acc.bad("C09", "delivery-lost-in-scan", format!("a delivery of signal {} made after the interrupted batch and its follow-up was not reported by the next batch [{}]", sig, label));
                    }
                }
                let d = DELIV[s].load(Ordering::SeqCst) - d_before;
                let y = YIELDS[s].load(Ordering::SeqCst) - y_before;
                acc.yields += y;
                if d != preset + nested + 1 {
                    acc.inconclusive = Some(format!("delivery count {} != sent {} [{}]", d, preset + nested + 1, label));
                    break 'outer;
                }
                if y > d {
                    acc.bad("C10", "more-yields-than-deliveries", format!("{} yields of signal {} for {} deliveries [{}]", y, sig, d, label));
                }
                if d > 0 && y == 0 {
                    acc.bad("C09", "delivery-lost-in-scan", format!("{} deliveries of signal {} and two complete scans afterwards, nothing yielded [{}]", d, sig, label));
                }
                if ename != "SignalOnly" {
                    // at most five records queue up, here at most three deliveries: every delivery has exactly one record
                    acc.records_checked += y;
                    if y != d {
                        acc.bad(if y < d { "C09" } else { "C10" }, "record-count", format!("{} records for {} deliveries (fewer than the five the buffer holds) [{}]", y, d, label));
                    }
                }
                for (sg, p) in sh.problems.lock().unwrap().drain(..) {
                    acc.bad("C10", &sg, format!("{} [{}]", p, label));
                }
                if wake_missing.get() > 0 {
                    acc.bad("C09", "no-wakeup-after-delivery", format!(
                        "{} deliveries of signal {} to the idle consumer left no wake-up byte in the self-pipe although nothing had been drained since: a consumer blocked in wait() would sleep on [{}]",
                        wake_missing.get(), sig, label));
                }
                if NO_INFO.load(Ordering::SeqCst) > 0 {
                    acc.inconclusive = Some("a queued signal arrived without its siginfo: the pending-signal quota of the user is exhausted".into());
                    break 'outer;
                }
                if acc.samples.len() < 6 && fired && (acc.trials % 37 == 1) {
                    acc.samples.push(J::s(&format!("{}: deliveries {} yields {} second-scan-needed-so-far {}", label, d, y, acc.second_scan_needed)));
                }
                if !acc.bad.is_empty() {
                    break 'outer;
                }
                if measuring {
                    k = 1;
                } else if !probe_first {
                    probe_first = true;
                } else {
                    probe_first = false;
                    k += 1;
                    if k > gap + 1 {
                        break;
                    }
                }
            }
        }
    }
    if !acc.bad.is_empty() {
        // a verdict is a verdict even if a thread is gone
        acc.inconclusive = None;
        if THREAD_DIED.load(Ordering::SeqCst) {
            return;
        }
    }
    if acc.inconclusive.is_some() {
        // a thread may be stuck: do not wait for it
        return;
    }
    sh.cmd.store(9, Ordering::SeqCst);
    served += 1;
    sh.go.store(served, Ordering::SeqCst);
    let _ = cj.join();
    let _ = hj.join();
    SH_PTR.store(0, Ordering::SeqCst);
}

// ------------------------------------------------------------------------------------------- backlog

static BACKLOG_PROGRESS: AtomicU64 = AtomicU64::new(0);

/// C09 (and C03): many deliveries arrive on the consumer's own thread while nothing drains the self-pipe. Every one of them
/// must return (the wake-up is best effort once the pipe is full); afterwards the consumer obtains the signal.
fn backlog<E>(ename: &'static str, exf: E, acc: &mut Acc)
where
    E: Exfiltrator + Send + 'static,
    E::Output: Describe + Send,
    E::Storage: Sync,
{
    let sig = libc::SIGUSR2;
    THE_SIG.store(sig, Ordering::SeqCst);
    for a in [&DELIV, &YIELDS, &STORE_STAMP, &YIELD_STAMP] {
        a[sig as usize].store(0, Ordering::SeqCst);
    }
    BACKLOG_PROGRESS.store(0, Ordering::SeqCst);
    let mut signals = match SignalsInfo::with_exfiltrator([sig], exf) {
        Ok(s) => s,
        Err(e) => {
            acc.inconclusive = Some(format!("cannot create the instance: {}", e));
            return;
        }
    };
    const N: u64 = 1500;
    let ktid = Arc::new(AtomicI32::new(0));
    let done = Arc::new(AtomicBool::new(false));
    let yields = Arc::new(AtomicU64::new(0));
    let (k2, d2, y2) = (ktid.clone(), done.clone(), yields.clone());
    let cj = std::thread::spawn(move || {
        crate::set_thread(CONSUMER, class::CONSUMER);
        k2.store(crate::sig::gettid(), Ordering::SeqCst);
        for _ in 0..N {
            let seq = NEXT_SEQ.fetch_add(1, Ordering::SeqCst);
            crate::sig::queue_self(sig, seq as usize);
            BACKLOG_PROGRESS.fetch_add(1, Ordering::SeqCst);
        }
        for item in signals.pending() {
            let (s, _, _, _) = item.describe();
            if s == sig {
                y2.fetch_add(1, Ordering::SeqCst);
            }
        }
        d2.store(true, Ordering::SeqCst);
        drop(signals);
    });
    let t0 = crate::now_ms();
    while !done.load(Ordering::SeqCst) {
        std::thread::sleep(std::time::Duration::from_millis(2));
        let kt = ktid.load(Ordering::SeqCst);
        let prog = || BACKLOG_PROGRESS.load(Ordering::SeqCst);
        if kt != 0 && OPEN_BRACKETS.load(Ordering::SeqCst) > 0 && crate::probe::stably_blocked_in(kt, &[1, 44, 46, 20], None, 10, 10, &prog) && !done.load(Ordering::SeqCst) {
            let detail = format!(
                "{}: with {} wake-ups undrained a delivery on the consumer's own thread is blocked (stable) in write/send inside the handler: the consumer never gets back to wait() and never obtains the signal",
                ename, BACKLOG_PROGRESS.load(Ordering::SeqCst));
            acc.bad("C09", "consumer-blocked-in-its-own-delivery", detail.clone());
            acc.bad("C13", "delivery-blocked-on-full-descriptor", detail.clone());
            acc.bad("C03", "dispatch-blocks", detail);
            // the thread cannot be joined: report and leave
            for (p, sg, d) in acc.bad.iter() {
                emit_violation(p, sg, d);
            }
            unsafe { libc::_exit(1) };
        }
        if crate::now_ms() - t0 > 60_000 {
            acc.inconclusive = Some("backlog consumer neither finished nor reached a stable blocked state".into());
            return;
        }
    }
    let _ = cj.join();
    acc.trials += 1;
    acc.fired += 1;
    acc.yields += yields.load(Ordering::SeqCst);
    acc.keys.insert(format!("backlog:{}", ename));
    if yields.load(Ordering::SeqCst) == 0 {
        acc.bad("C09", "delivery-lost-in-scan", format!("{}: {} deliveries on the consumer's own thread, then a complete pending(): nothing yielded", ename, N));
    }
    if acc.samples.len() < 6 {
        acc.samples.push(J::s(&format!("backlog {}: {} deliveries on the consumer thread with nothing draining, all returned; pending() then yielded {} item(s)", ename, N, yields.load(Ordering::SeqCst))));
    }
}

/// C09: instances are independent. Two instances open at once (same signal, different signals) and one created after
/// another was dropped with an unread wake-up byte: every delivery of a watched signal leaves a wake-up byte in the
/// instance's own self-pipe, and its next batch has the signal.
fn pair(acc: &mut Acc) {
    use signal_hook::iterator::Signals;
    let (s, t) = (libc::SIGUSR2, libc::SIGUSR1);
    let _keep_t = unsafe { signal_hook_registry::register(t, || ()) };
    let mk = |sigs: &[c_int]| -> Option<(Signals, c_int)> {
        let before = crate::sig::open_fds();
        let inst = Signals::new(sigs).ok()?;
        let new: Vec<c_int> = crate::sig::open_fds().into_iter().filter(|f| !before.contains(f)).collect();
        if new.len() != 2 {
            return None;
        }
        Some((inst, new[0]))
    };
    let mut check = |what: &str, insts: &mut [(&mut Signals, c_int, c_int)], acc: &mut Acc| {
        for (inst, rfd, sig) in insts.iter_mut() {
            if crate::sig::fionread(*rfd) <= 0 {
                acc.bad("C09", "no-wakeup-after-delivery", format!("{}: after a delivery of signal {} the self-pipe of an instance watching it holds no wake-up byte: its consumer would stay blocked", what, sig));
            }
            let got: Vec<c_int> = inst.pending().collect();
            if !got.contains(sig) {
                acc.bad("C09", "delivery-lost-in-scan", format!("{}: an instance watching signal {} did not report its delivery (got {:?})", what, sig, got));
            }
        }
        acc.trials += 1;
        acc.fired += 1;
        acc.keys.insert(format!("pair:{}", what));
    };
    for round in 0..20 {
        // (a) two instances watch the same signal
        if let (Some((mut a, ra)), Some((mut b, rb))) = (mk(&[s]), mk(&[s])) {
            unsafe { libc::raise(s) };
            check("two instances, same signal", &mut [(&mut a, ra, s), (&mut b, rb, s)], acc);
            // (b) one of them gets a delivery while the other one still has an unread byte
            unsafe { libc::raise(s) };
            let _ = a.pending().count();
            unsafe { libc::raise(s) };
            check("two instances, one drained in between", &mut [(&mut a, ra, s), (&mut b, rb, s)], acc);
        } else {
            acc.inconclusive = Some("could not create two instances".into());
            return;
        }
        // (c) different signals, deliveries back to back
        if let (Some((mut a, ra)), Some((mut b, rb))) = (mk(&[s]), mk(&[t])) {
            unsafe { libc::raise(s) };
            unsafe { libc::raise(t) };
            check("two instances, different signals", &mut [(&mut a, ra, s), (&mut b, rb, t)], acc);
        }
        // (d) an instance is dropped with an unread wake-up byte, then a new one is created
        if let Some((a, _)) = mk(&[s]) {
            unsafe { libc::raise(s) };
            drop(a);
        }
        if let Some((mut c, rc)) = mk(&[s]) {
            unsafe { libc::raise(s) };
            check("instance created after another was dropped unread", &mut [(&mut c, rc, s)], acc);
        }
        if !acc.bad.is_empty() {
            break;
        }
        let _ = round;
    }
    director::lib_exit();
}

// ------------------------------------------------------------------------------------------- channel

static CH_REC_ON: AtomicBool = AtomicBool::new(false);
static CH_REC: std::sync::Mutex<Vec<(u32, usize)>> = std::sync::Mutex::new(Vec::new());

fn chan_observer(s: u32, a: usize, _b: usize) {
    if CH_REC_ON.load(Ordering::Relaxed) && crate::tid() == 1 && !istep::in_step_action() {
        if let Ok(mut g) = CH_REC.try_lock() {
            g.push((s, a));
        }
    }
}

fn chan_action(_k: u64, _rip: usize) {
    pc::nested_call(0, 0, 0);
}

fn chan_sweep(shard: u64, of: u64, stride: u64, seed: u64, acc: &mut Acc) {
    pc::NEST_HEAP.store(false, Ordering::SeqCst);
    let mut trial_idx = 0u64;
    for op in [pc::OP_SEND, pc::OP_RECV] {
        for prefill in 0..=5usize {
            // calibration: hook arrivals of the plain operation (queue addresses differ per channel, so windows are
            // identified by site and occurrence)
            let ch: Channel<Val> = Channel::new();
            for _ in 0..prefill {
                pc::do_send(&ch, Val::new(false));
            }
            CH_REC.lock().unwrap().clear();
            CH_REC_ON.store(true, Ordering::SeqCst);
            if op == pc::OP_SEND {
                pc::do_send(&ch, Val::new(false));
            } else {
                pc::do_recv(&ch);
            }
            CH_REC_ON.store(false, Ordering::SeqCst);
            drop(ch);
            let rec: Vec<(u32, usize)> = CH_REC.lock().unwrap().clone();
            let mut windows: Vec<(u32, u64)> = vec![(0, 1)];
            for (i, r) in rec.iter().enumerate() {
                let occ = rec[..i].iter().filter(|x| x.0 == r.0).count() as u64 + 1;
                windows.push((r.0, occ));
            }
            for w in windows.iter() {
                for nk in 1..=7u32 {
                    let mut gap = 0u64;
                    let mut k = u64::MAX - 1;
                    loop {
                        let measuring = k == u64::MAX - 1;
                        if !measuring {
                            trial_idx += 1;
                            if trial_idx % of != shard || (stride > 1 && (trial_idx / of + seed) % stride != 0) {
                                k += 1;
                                if k > gap + 1 {
                                    break;
                                }
                                continue;
                            }
                        }
                        evlog::reset();
                        pc::reset_vals();
                        let first_val = pc::NEXT_VAL.load(Ordering::SeqCst);
                        let ch: Channel<Val> = Channel::new();
                        for _ in 0..prefill {
                            pc::do_send(&ch, Val::new(false));
                        }
                        pc::CUR_CHAN.store(&ch as *const _ as *mut _, Ordering::SeqCst);
                        pc::NEST_KIND.store(nk, Ordering::SeqCst);
                        let nest_before = pc::NEST_RAN.load(Ordering::SeqCst);
                        if w.0 == 0 {
                            pc::STEP_FROM_START.store(k, Ordering::SeqCst);
                        } else {
                            istep::plan_for(1, w.0, w.1, k, 20_000, u64::MAX, u64::MAX, true, chan_action);
                        }
                        if op == pc::OP_SEND {
                            pc::do_send(&ch, Val::new(false));
                        } else {
                            pc::do_recv(&ch);
                        }
                        istep::cancel_plan(1);
                        if istep::is_active() {
                            istep::disarm();
                        }
                        let st = istep::state_of(1);
                        let fired = st.fired.load(Ordering::SeqCst) > 0;
                        let rip = st.fired_rip.load(Ordering::SeqCst) as usize;
                        pc::CUR_CHAN.store(std::ptr::null_mut(), Ordering::SeqCst);
                        let label = format!("chan op={} prefill={} window={}#{} k={} nested-kind={} fired={} rip={:#x}",
                            if op == pc::OP_SEND { "send" } else { "recv" }, prefill, if w.0 == 0 { "START" } else { director::site_name(w.0) }, w.1, k, nk, fired, rip);
                        if measuring {
                            gap = istep::LAST_GAP[1].load(Ordering::SeqCst).min(4000);
                            acc.windows += 1;
                        } else {
                            acc.trials += 1;
                            if fired {
                                acc.fired += 1;
                                acc.points.insert((format!("{}{}{}", op, prefill, nk), w.0, w.1, k));
                                acc.keys.insert(format!("chan:{}:p{}:{}#{}:n{}", if op == pc::OP_SEND { "send" } else { "recv" }, prefill, if w.0 == 0 { "START" } else { director::site_name(w.0) }, w.1, nk));
                                acc.nested_ops += pc::NEST_RAN.load(Ordering::SeqCst) - nest_before;
                            }
                        }
                        // drain, probe the capacity, drop, check the history
                        let mut drained = 0;
                        while pc::do_recv(&ch).is_some() {
                            drained += 1;
                            if drained > 8 {
                                acc.bad("C06", "channel-history", format!("more than five values drained from a five-slot channel [{}]", label));
                                break;
                            }
                        }
                        let mut probe = Vec::new();
                        for _ in 0..5 {
                            probe.push(pc::do_send(&ch, Val::new(false)));
                        }
                        let mut back = Vec::new();
                        while let Some(id) = pc::do_recv(&ch) {
                            back.push(id);
                            if back.len() > 8 {
                                break;
                            }
                        }
                        if back != probe {
                            acc.bad("C06", "capacity-lost", format!("with the channel empty and nobody else inside, five sends {:?} came back as {:?}: a slot index is in neither queue [{}]", probe, back, label));
                        }
                        evlog::log(kind::MARK, 1, 0);
                        drop(ch);
                        let last_val = pc::NEXT_VAL.load(Ordering::SeqCst);
                        let evs = evlog::snapshot();
                        let (bad, _st) = pc::check_log(&evs, first_val, last_val);
                        for b in bad {
                            let prop = if b.contains("dropped") && !b.contains("lost") && !b.contains("discarded") { "C07" } else if b.contains("never returned") { "C08" } else { "C06" };
                            let sg = if b.contains("FIFO") { "fifo-order" } else if b.contains("twice") { "duplicate" } else if b.contains("never sent") { "invented" }
                                else if b.contains("empty") { "empty-although-nonempty" } else if b.contains("discarded although") { "unjustified-discard" }
                                else if b.contains("lost") { "value-lost" } else if prop == "C07" { "value-not-dropped-exactly-once" } else { "channel-history" };
                            acc.bad(prop, sg, format!("{} [{}]", b, label));
                        }
                        if pc::NEST_PANICS.load(Ordering::SeqCst) > 0 {
                            acc.bad("C08", "channel-op-panicked", format!("a nested channel operation panicked [{}]", label));
                        }
                        if acc.samples.len() < 6 && fired && acc.trials % 97 == 1 {
                            acc.samples.push(J::s(&label));
                        }
                        if !acc.bad.is_empty() {
                            return;
                        }
                        if measuring {
                            k = 1;
                        } else {
                            k += 1;
                            if k > gap + 1 {
                                break;
                            }
                        }
                    }
                }
            }
        }
    }
}

pub fn main(args: &[String]) -> i32 {
    let seed = arg_u64(args, "--seed", 1);
    let md = arg_str(args, "--mode", "scan").to_string();
    let of = arg_u64(args, "--of", 0);
    let stride = arg_u64(args, "--stride", 1).max(1);
    if !istep::supported() {
        emit(&J::obj().set("type", J::s("inconclusive")).set("reason", J::s("instruction stepping needs x86-64 Linux")));
        return 2;
    }
    if of == 0 && md != "backlog" {
        // parent: run the shards as child processes and relay their report lines
        let n = arg_u64(args, "--shards", 8).max(1);
        let exe = std::env::current_exe().expect("exe");
        let mut kids = Vec::new();
        for i in 0..n {
            let mut a: Vec<String> = vec!["w_step".into()];
            a.extend(args.iter().cloned());
            a.extend(["--shard".to_string(), i.to_string(), "--of".to_string(), n.to_string()]);
            kids.push(std::process::Command::new(&exe).args(&a).stdout(std::process::Stdio::piped()).spawn().expect("spawn shard"));
        }
        let mut code = 0;
        for k in kids {
            let out = k.wait_with_output().expect("shard output");
            print!("{}", String::from_utf8_lossy(&out.stdout));
            let c = out.status.code().unwrap_or(101);
            if c == 1 || (c != 0 && code == 0) {
                code = c;
            }
            if out.status.code().is_none() {
                println!("shard died: {:?}", out.status);
            }
        }
        return code;
    }
    let shard = arg_u64(args, "--shard", 0);
    crate::set_thread(1, class::MAIN);
    director::seed_thread(seed);
    evlog::init(1 << 16);
    evlog::enable(md == "chan");
    director::install();
    istep::install();
    let mut acc = Acc::new();
    let t0 = crate::now_ms();
    match md.as_str() {
        "scan" | "dual" => {
            director::set_observer(Some(observer));
            director::LOG_HOOKS.store(0, Ordering::SeqCst);
            unsafe {
                signal_hook_registry::register_sigaction(libc::SIGUSR2, witness).expect("witness");
            }
            let dual = md == "dual";
            iter_sweep("SignalOnly", SignalOnly::default(), dual, shard, of, stride, seed, &mut acc);
            if acc.bad.is_empty() && acc.inconclusive.is_none() {
                iter_sweep("WithRawSiginfo", WithRawSiginfo::default(), dual, shard, of, stride, seed, &mut acc);
            }
            if acc.bad.is_empty() && acc.inconclusive.is_none() {
                iter_sweep("WithOrigin", WithOrigin::default(), dual, shard, of, stride, seed, &mut acc);
            }
        }
        "backlog" => {
            director::set_observer(Some(observer));
            director::LOG_HOOKS.store(0, Ordering::SeqCst);
            unsafe {
                signal_hook_registry::register_sigaction(libc::SIGUSR2, witness).expect("witness");
            }
            pair(&mut acc);
            if acc.bad.is_empty() && acc.inconclusive.is_none() {
                backlog("SignalOnly", SignalOnly::default(), &mut acc);
            }
            if acc.bad.is_empty() && acc.inconclusive.is_none() {
                backlog("WithRawSiginfo", WithRawSiginfo::default(), &mut acc);
            }
            if acc.bad.is_empty() && acc.inconclusive.is_none() {
                backlog("WithOrigin", WithOrigin::default(), &mut acc);
            }
        }
        "chan" => {
            director::set_observer(Some(chan_observer));
            director::LOG_HOOKS.store(2, Ordering::SeqCst);
            chan_sweep(shard, of, stride, seed, &mut acc);
        }
        _ => return 3,
    }
    director::flush_counts();
    director::uninstall();
    let mut nviol = 0;
    for (p, s, d) in acc.bad.iter() {
        emit_violation(p, s, d);
        nviol += 1;
    }
    let mut keys: Vec<String> = acc.keys.iter().cloned().collect();
    keys.sort();
    keys.truncate(400);
    emit(&J::obj()
        .set("type", J::s("summary"))
        .set("workload", J::s("w_step"))
        .set("mode", J::s(&md))
        .set("seed", J::u(seed))
        .set("shard", J::u(shard))
        .set("evaluations", J::u(acc.fired))
        .set("distinct_keys", J::arr(keys.iter().map(|k| J::s(k))))
        .set("samples", J::arr(acc.samples.clone()))
        .set("step_trials", J::u(acc.trials))
        .set("step_trials_fired", J::u(acc.fired))
        .set("step_windows_measured", J::u(acc.windows))
        .set("step_distinct_instruction_points", J::u(acc.points.len() as u64))
        .set("step_traps", J::u(istep::TOTAL_TRAPS.load(Ordering::SeqCst)))
        .set("yields", J::u(acc.yields))
        .set("records_checked", J::u(acc.records_checked))
        .set("second_scan_needed", J::u(acc.second_scan_needed))
        .set("helper_scans", J::u(acc.helper_scans))
        .set("nested_ops", J::u(acc.nested_ops))
        .set("violations", J::u(nviol))
        .set("wall_ms", J::u(crate::now_ms() - t0)));
    if let Some(r) = acc.inconclusive {
        emit(&J::obj().set("type", J::s("inconclusive")).set("reason", J::s(&r)));
        return 2;
    }
    if nviol > 0 {
        1
    } else {
        0
    }
}
