//! Stress scaffolding: a table of target threads, killer loops that bombard them with
//! thread-directed signals, and victim loops.

use std::sync::atomic::{AtomicBool, AtomicU64, AtomicUsize, Ordering};

use libc::c_int;

use crate::evlog;
use crate::rng::Rng;

pub const MAX_TARGETS: usize = 64;
#[allow(clippy::declare_interior_mutable_const)]
const AU: AtomicUsize = AtomicUsize::new(0);
/// pthread_t of every target thread (0 = empty). Entries are only cleared after all killers
/// have been joined.
pub static TARGETS: [AtomicUsize; MAX_TARGETS] = [AU; MAX_TARGETS];
/// Weight class of the target: 0 = plain victim, 1 = mutator/consumer (targeted less often).
pub static TARGET_KIND: [AtomicUsize; MAX_TARGETS] = [AU; MAX_TARGETS];
pub static N_TARGETS: AtomicUsize = AtomicUsize::new(0);
pub static SEQ: AtomicU64 = AtomicU64::new(1);
/// While set, killers idle (lets starved writers finish: the barrier needs an instant without readers).
pub static PAUSE_KILLERS: AtomicBool = AtomicBool::new(false);

pub fn add_target(kind: usize) -> usize {
    let i = N_TARGETS.fetch_add(1, Ordering::SeqCst);
    assert!(i < MAX_TARGETS);
    TARGET_KIND[i].store(kind, Ordering::SeqCst);
    TARGETS[i].store(unsafe { libc::pthread_self() } as usize, Ordering::SeqCst);
    i
}

/// Only when no killer is running.
pub fn clear_targets() {
    for t in TARGETS.iter() {
        t.store(0, Ordering::SeqCst);
    }
    N_TARGETS.store(0, Ordering::SeqCst);
}

#[derive(Clone, Copy)]
pub struct SigSpec {
    pub sig: c_int,
    /// Queue with a unique sequence number (real-time style) instead of pthread_kill.
    pub queued: bool,
}

pub struct KillerCfg {
    pub sigs: Vec<SigSpec>,
    /// Spin iterations between two sends.
    pub gap: u32,
    /// One in `mutator_share` sends goes to a kind-1 target (if any).
    pub mutator_share: u64,
    pub log_sends: bool,
}

/// Sends signals until `stop`. Returns (attempted, succeeded).
pub fn killer_loop(stop: &AtomicBool, cfg: &KillerCfg, seed: u64) -> (u64, u64) {
    let mut rng = Rng::new(seed);
    let mut sent = 0u64;
    let mut ok = 0u64;
    while !stop.load(Ordering::Relaxed) {
        if PAUSE_KILLERS.load(Ordering::Relaxed) {
            std::thread::sleep(std::time::Duration::from_micros(200));
            continue;
        }
        let n = N_TARGETS.load(Ordering::Relaxed);
        if n == 0 {
            std::thread::yield_now();
            continue;
        }
        // pick a target
        let want_mut = rng.below(cfg.mutator_share.max(1)) == 0;
        let mut idx = rng.below(n as u64) as usize;
        for _ in 0..8 {
            let k = TARGET_KIND[idx].load(Ordering::Relaxed);
            if (k == 1) == want_mut {
                break;
            }
            idx = rng.below(n as u64) as usize;
        }
        let th = TARGETS[idx].load(Ordering::Relaxed);
        if th == 0 {
            continue;
        }
        let s = *rng.pick(&cfg.sigs);
        sent += 1;
        let rc = if s.queued {
            let seq = SEQ.fetch_add(1, Ordering::SeqCst);
            if cfg.log_sends {
                evlog::log(evlog::kind::SEND, s.sig as u64, seq);
            }
            crate::sig::queue_thread(th as libc::pthread_t, s.sig, seq as usize)
        } else {
            crate::sig::kill_thread(th as libc::pthread_t, s.sig)
        };
        if rc == 0 {
            ok += 1;
        }
        let g = if cfg.gap > 0 { rng.below(cfg.gap as u64 * 2) as u32 } else { 0 };
        for _ in 0..g {
            std::hint::spin_loop();
        }
        if sent % 256 == 0 {
            std::thread::yield_now();
        }
    }
    (sent, ok)
}

/// A victim that burns CPU in user space.
pub fn victim_spin(stop: &AtomicBool) -> u64 {
    let mut x = 0u64;
    while !stop.load(Ordering::Relaxed) {
        for _ in 0..200 {
            x = x.wrapping_mul(6364136223846793005).wrapping_add(1442695040888963407);
            std::hint::spin_loop();
        }
    }
    x
}

/// A victim that mostly sleeps (interrupted syscalls).
pub fn victim_sleep(stop: &AtomicBool) {
    while !stop.load(Ordering::Relaxed) {
        let ts = libc::timespec { tv_sec: 0, tv_nsec: 200_000 };
        unsafe { libc::nanosleep(&ts, std::ptr::null_mut()) };
    }
}

/// A victim blocked in read(2) on a pipe (restarted by SA_RESTART); returns when a byte arrives
/// or the write end is closed. Returns the read() result and errno.
pub fn victim_read(fd: c_int) -> (isize, i32) {
    let mut b = [0u8; 1];
    let n = unsafe { libc::read(fd, b.as_mut_ptr() as *mut _, 1) };
    let e = std::io::Error::last_os_error().raw_os_error().unwrap_or(0);
    (n, e)
}
