//! w_instance: a Signals instance against rejected additions, clones and drops (C12).
//! One forked child per generated script; the child runs the script step by step with panics
//! caught, compares every observation with a small model and reports mismatches.

use std::collections::BTreeSet;
use std::os::unix::io::AsRawFd;
use std::os::unix::net::UnixStream;
use std::panic::{catch_unwind, AssertUnwindSafe};
use std::sync::atomic::{AtomicBool, AtomicU64, Ordering};
use std::sync::Arc;

use libc::c_int;
use signal_hook::iterator::backend::{Handle, SignalDelivery};
use signal_hook::iterator::exfiltrator::origin::Origin;
use signal_hook::iterator::exfiltrator::{Exfiltrator, SignalOnly, WithOrigin, WithRawSiginfo};

use crate::director;
use crate::fork::{self, End};
use crate::jsonw::{emit, emit_violation, J};
use crate::rng::Rng;
use crate::{arg_u64, class, site};

pub trait SigOf {
    fn sig_of(&self) -> c_int;
}
impl SigOf for c_int {
    fn sig_of(&self) -> c_int {
        *self
    }
}
impl SigOf for libc::siginfo_t {
    fn sig_of(&self) -> c_int {
        self.si_signo
    }
}
impl SigOf for Origin {
    fn sig_of(&self) -> c_int {
        self.signal
    }
}

#[derive(Clone, Debug)]
enum Step {
    New(Vec<c_int>),
    Add(c_int),
    AddViaHandle(usize, c_int),
    CloneHandle,
    DropHandle(usize),
    DropInstance,
    Deliver(c_int),
    Pending,
}

#[derive(Clone, Copy, PartialEq, Debug)]
pub enum Class {
    Ok,
    Err,
    Panic,
}

/// What the documentation and the OS say about adding signal `n`.
pub fn expected_class(n: c_int) -> Class {
    if n < 0 || n >= 128 {
        return Class::Panic;
    }
    if signal_hook::consts::FORBIDDEN.contains(&n) {
        return Class::Panic;
    }
    if n == 0 || n == 32 || n == 33 || n > 64 {
        return Class::Err;
    }
    Class::Ok
}

static STORED: AtomicU64 = AtomicU64::new(0);
static STORED_SIG: AtomicU64 = AtomicU64::new(0);
static WAKES: AtomicU64 = AtomicU64::new(0);
static WAKE_ON_CLOSED: AtomicU64 = AtomicU64::new(0);

fn observer(s: u32, a: usize, _b: usize) {
    if s == site::IT_A_STORED {
        STORED.fetch_add(1, Ordering::SeqCst);
        STORED_SIG.store(a as u64, Ordering::SeqCst);
    } else if s == site::PIPE_WAKE {
        WAKES.fetch_add(1, Ordering::SeqCst);
        // the write end must still be open whenever an action of the instance uses it
        if !crate::sig::fd_open(a as c_int) {
            WAKE_ON_CLOSED.fetch_add(1, Ordering::SeqCst);
        }
    }
}

// includes the first and the last real-time signal of this platform (34 and 64 with glibc): the ends of every table indexed by signal number
const VALID_ALL: [c_int; 8] = [libc::SIGUSR1, libc::SIGUSR2, libc::SIGHUP, libc::SIGWINCH, libc::SIGALRM, libc::SIGURG, 64, 34];

/// ... those of them that this environment lets a program handle (valgrind keeps the highest real-time signal for itself)
fn valid() -> Vec<c_int> {
    // probed once (in the parent, before anything is registered); forked children inherit the answer
    static V: std::sync::OnceLock<Vec<c_int>> = std::sync::OnceLock::new();
    V.get_or_init(|| VALID_ALL.iter().cloned().filter(|s| crate::sig::settable(*s)).collect()).clone()
}

fn gen_script(rng: &mut Rng, reject: c_int) -> Vec<Step> {
    let mut sc = Vec::new();
    let n0 = rng.range(1, 3) as usize;
    let mut init: Vec<c_int> = (0..n0).map(|_| *rng.pick(&valid())).collect();
    // sometimes the constructor itself gets the rejected number (failing constructor)
    let ctor_fails = rng.chance(1, 5);
    if ctor_fails {
        let pos = rng.below(init.len() as u64 + 1) as usize;
        init.insert(pos, reject);
    }
    sc.push(Step::New(init.clone()));
    if ctor_fails {
        for s in valid().iter().take(3) {
            sc.push(Step::Deliver(*s));
        }
        sc.push(Step::New(vec![*rng.pick(&valid())]));
    }
    let len = rng.range(6, 12);
    let mut placed = false;
    for i in 0..len {
        let r = rng.below(100);
        let st = if !placed && (i >= len / 3 || r < 15) {
            placed = true;
            if rng.chance(1, 3) { Step::AddViaHandle(0, reject) } else { Step::Add(reject) }
        } else if r < 20 {
            Step::Add(*rng.pick(&valid()))
        } else if r < 28 {
            Step::Add(reject) // repeat the rejected one
        } else if r < 36 {
            Step::CloneHandle
        } else if r < 42 {
            Step::DropHandle(rng.below(3) as usize)
        } else if r < 47 {
            Step::DropInstance
        } else if r < 75 {
            Step::Deliver(*rng.pick(&valid()))
        } else if r < 82 {
            Step::AddViaHandle(rng.below(3) as usize, *rng.pick(&valid()))
        } else {
            Step::Pending
        };
        sc.push(st);
    }
    // always finish with: deliver all, pending, re-add of a watched signal, deliver, drop all, deliver all
    for s in valid().iter() {
        sc.push(Step::Deliver(*s));
    }
    sc.push(Step::Pending);
    sc
}

/// A real delivery of a watched signal right when the last owner starts to unregister (IT_DROP_BEGIN).
fn arm_raise_in_drop(watched: &BTreeSet<c_int>) {
    director::clear_rules();
    if let Some(s) = watched.iter().next() {
        director::set_rule(
            site::IT_DROP_BEGIN,
            director::RuleSpec { mode: director::mode::RAISE, nth: 1, arg: *s as usize, ..Default::default() },
        );
        director::set_rule(
            site::UNREG_BEFORE_PUBLISH,
            director::RuleSpec { mode: director::mode::RAISE, nth: 1, arg: *s as usize, ..Default::default() },
        );
    }
}

/// Runs a script in this (child) process. Returns mismatches.
fn run_script<E>(mk: &dyn Fn() -> E, script: &[Step], out: &mut Vec<String>)
where
    E: Exfiltrator,
    E::Output: SigOf,
{
    // witnesses: the library owns every signal used, and a registration the instance did not make
    let mut flags = Vec::new();
    for s in valid().iter() {
        let f = Arc::new(AtomicBool::new(false));
        signal_hook::flag::register(*s, f.clone()).expect("witness flag");
        flags.push((*s, f));
    }
    let fds_base = crate::sig::open_fds();
    let mut inst: Option<SignalDelivery<UnixStream, E>> = None;
    let mut readfd: c_int = -1;
    let mut handles: Vec<Handle> = Vec::new();
    let mut watched: BTreeSet<c_int> = BTreeSet::new(); // model: signals with a live registration of the instance
    let mut flagged: BTreeSet<c_int> = BTreeSet::new(); // model: delivered since the last pending
    let mut raw_counts: std::collections::BTreeMap<c_int, usize> = Default::default();

    let alive = |inst: &Option<SignalDelivery<UnixStream, E>>, handles: &Vec<Handle>| inst.is_some() || !handles.is_empty();

    for (i, st) in script.iter().enumerate() {
        match st {
            Step::New(list) => {
                if inst.is_some() || !handles.is_empty() {
                    continue;
                }
                let expect_fail = list.iter().map(|n| expected_class(*n)).find(|c| *c != Class::Ok);
                let before = crate::sig::open_fds();
                let r = catch_unwind(AssertUnwindSafe(|| {
                    let (r, w) = UnixStream::pair().unwrap();
                    let fd = r.as_raw_fd();
                    SignalDelivery::with_pipe(r, w, mk(), list.iter()).map(|d| (d, fd))
                }));
                let got = match &r {
                    Ok(Ok(_)) => Class::Ok,
                    Ok(Err(_)) => Class::Err,
                    Err(_) => Class::Panic,
                };
                let want = expect_fail.unwrap_or(Class::Ok);
                if got != want {
                    out.push(format!("step {}: constructor with {:?}: outcome {:?}, expected {:?}", i, list, got, want));
                }
                match r {
                    Ok(Ok((d, fd))) => {
                        inst = Some(d);
                        readfd = fd;
                        watched = list.iter().cloned().collect();
                        flagged.clear();
                        raw_counts.clear();
                    }
                    _ => {
                        // failed constructor: nothing may stay behind
                        let after = crate::sig::open_fds();
                        if after != before {
                            out.push(format!("step {}: failed constructor left descriptors open: before {:?} after {:?}", i, before, after));
                        }
                        watched.clear();
                    }
                }
            }
            Step::Add(n) | Step::AddViaHandle(_, n) => {
                let h: Option<Handle> = match st {
                    Step::Add(_) => inst.as_ref().map(|d| d.handle()),
                    Step::AddViaHandle(k, _) => handles.get(*k).cloned(),
                    _ => None,
                };
                let h = match h {
                    Some(h) => h,
                    None => continue,
                };
                let r = catch_unwind(AssertUnwindSafe(|| h.add_signal(*n)));
                let got = match &r {
                    Ok(Ok(())) => Class::Ok,
                    Ok(Err(_)) => Class::Err,
                    Err(_) => Class::Panic,
                };
                let want = if watched.contains(n) { Class::Ok } else { expected_class(*n) };
                if got != want {
                    let msg = match &r {
                        Err(p) => p.downcast_ref::<String>().cloned().or_else(|| p.downcast_ref::<&str>().map(|s| s.to_string())).unwrap_or_default(),
                        Ok(Err(e)) => e.to_string(),
                        _ => String::new(),
                    };
                    out.push(format!("step {}: add_signal({}) outcome {:?} ({}), expected {:?} [watched {:?}]", i, n, got, msg.chars().take(60).collect::<String>(), want, watched));
                }
                if got == Class::Ok {
                    watched.insert(*n);
                }
                drop(h);
            }
            Step::CloneHandle => {
                if let Some(d) = inst.as_ref() {
                    handles.push(d.handle());
                } else if let Some(h) = handles.first() {
                    let c = h.clone();
                    handles.push(c);
                }
            }
            Step::DropHandle(k) => {
                if *k < handles.len() {
                    arm_raise_in_drop(&watched);
                    let h = handles.remove(*k);
                    let r = catch_unwind(AssertUnwindSafe(move || drop(h)));
                    if r.is_err() {
                        out.push(format!("step {}: dropping a handle panicked", i));
                    }
                    if !alive(&inst, &handles) {
                        watched.clear();
                    }
                }
            }
            Step::DropInstance => {
                if let Some(d) = inst.take() {
                    arm_raise_in_drop(&watched);
                    let r = catch_unwind(AssertUnwindSafe(move || drop(d)));
                    if r.is_err() {
                        out.push(format!("step {}: dropping the instance panicked", i));
                    }
                    readfd = -1;
                    if !alive(&inst, &handles) {
                        watched.clear();
                    }
                }
            }
            Step::Deliver(s) => {
                let before = STORED.load(Ordering::SeqCst);
                let bytes_before = if readfd >= 0 { crate::sig::fionread(readfd) } else { 0 };
                let fl = &flags.iter().find(|(x, _)| x == s).unwrap().1;
                fl.store(false, Ordering::SeqCst);
                unsafe { libc::raise(*s) };
                let ran = STORED.load(Ordering::SeqCst) - before;
                let want = if watched.contains(s) { 1 } else { 0 };
                if ran != want {
                    out.push(format!("step {}: delivery of {} ran {} actions of the instance, expected {} [watched {:?}, instance alive {}, handles {}]", i, s, ran, want, watched, inst.is_some(), handles.len()));
                }
                if !fl.load(Ordering::SeqCst) {
                    out.push(format!("step {}: a registration the instance did not make (flag on {}) no longer runs", i, s));
                }
                if readfd >= 0 {
                    let got = crate::sig::fionread(readfd) - bytes_before;
                    if got != want as i64 {
                        out.push(format!("step {}: delivery of {} put {} wake bytes into the self-pipe, expected {}", i, s, got, want));
                    }
                }
                if want == 1 && inst.is_some() {
                    flagged.insert(*s);
                    let c = raw_counts.entry(*s).or_insert(0);
                    *c = (*c + 1).min(5);
                }
            }
            Step::Pending => {
                if let Some(d) = inst.as_mut() {
                    let got: Vec<c_int> = d.pending().map(|o| o.sig_of()).collect();
                    let got_set: BTreeSet<c_int> = got.iter().cloned().collect();
                    if got_set != flagged {
                        out.push(format!("step {}: pending() yielded {:?}, expected the signals {:?}", i, got, flagged));
                    }
                    if crate::sig::fionread(readfd) != 0 {
                        out.push(format!("step {}: pending() left {} bytes in the self-pipe", i, crate::sig::fionread(readfd)));
                    }
                    flagged.clear();
                    raw_counts.clear();
                }
            }
        }
    }
    // ---- epilogue: re-adding a watched signal is a no-op
    if let (Some(d), Some(s)) = (inst.as_ref(), watched.iter().next().cloned()) {
        let r = catch_unwind(AssertUnwindSafe(|| d.handle().add_signal(s)));
        if !matches!(r, Ok(Ok(()))) {
            out.push(format!("epilogue: re-adding watched signal {} did not return Ok", s));
        }
        let before = STORED.load(Ordering::SeqCst);
        unsafe { libc::raise(s) };
        if STORED.load(Ordering::SeqCst) - before != 1 {
            out.push(format!("epilogue: after re-adding {} a delivery ran {} instance actions", s, STORED.load(Ordering::SeqCst) - before));
        }
    }
    // ---- drop everything: registrations gone, pipe closed, foreign registrations intact
    arm_raise_in_drop(&watched);
    let r = catch_unwind(AssertUnwindSafe(move || {
        drop(handles);
        drop(inst);
    }));
    director::clear_rules();
    if WAKE_ON_CLOSED.load(Ordering::SeqCst) > 0 {
        out.push(format!("an action of the instance tried to wake through its write end {} times after that descriptor had been closed (delivery during the drop of the last owner)", WAKE_ON_CLOSED.load(Ordering::SeqCst)));
    }
    if r.is_err() {
        out.push("epilogue: dropping the instance / handles panicked".to_string());
    }
    let before = STORED.load(Ordering::SeqCst);
    let wakes_before = WAKES.load(Ordering::SeqCst);
    for (s, f) in flags.iter() {
        f.store(false, Ordering::SeqCst);
        unsafe { libc::raise(*s) };
        if !f.load(Ordering::SeqCst) {
            out.push(format!("epilogue: foreign flag on {} no longer runs after the instance is gone", s));
        }
    }
    if STORED.load(Ordering::SeqCst) != before || WAKES.load(Ordering::SeqCst) != wakes_before {
        out.push(format!(
            "epilogue: after the instance and all handles are gone a delivery still ran {} of its actions ({} wake attempts)",
            STORED.load(Ordering::SeqCst) - before,
            WAKES.load(Ordering::SeqCst) - wakes_before
        ));
    }
    let fds_end = crate::sig::open_fds();
    if fds_end != fds_base {
        out.push(format!("epilogue: descriptors differ from the baseline: {:?} vs {:?} (pipe not closed?)", fds_end, fds_base));
    }
}

/// Two threads add the same (and different) signals to one instance at the same time: afterwards the
/// signal must be watched exactly once (one action, one wake byte per delivery) and everything must go
/// away with the instance.
fn concurrent_adds(rounds: u64, seed: u64, fd: i32) -> i32 {
    use crate::fork::wr;
    let mut rng = Rng::new(seed);
    let sigs = [libc::SIGUSR1, libc::SIGUSR2, libc::SIGHUP];
    for s in sigs.iter() {
        let _ = unsafe { signal_hook_registry::register(*s, || ()) };
    }
    let base = crate::sig::open_fds();
    for round in 0..rounds {
        director::clear_rules();
        for st in [site::IT_ADD_LOCKED, site::IT_ADD_REGISTERED, site::REG_CLONED, site::REG_DONE] {
            director::set_rule(st, director::RuleSpec { mode: director::mode::DELAY, p: 40000, max: 1 + rng.below(3000) as u32, ..Default::default() });
        }
        let (r, w) = UnixStream::pair().unwrap();
        let rfd = r.as_raw_fd();
        let d = match SignalDelivery::with_pipe(r, w, WithRawSiginfo, &[] as &[c_int]) {
            Ok(d) => d,
            Err(e) => {
                wr(fd, &format!("BAD with_pipe failed: {}\n", e));
                break;
            }
        };
        let barrier = Arc::new(std::sync::Barrier::new(2));
        let same = sigs[(round % 3) as usize];
        let mut js = Vec::new();
        for t in 0..2u32 {
            let h: Handle = d.handle();
            let b = barrier.clone();
            let other = sigs[((round + 1 + t as u64) % 3) as usize];
            js.push(std::thread::spawn(move || {
                crate::set_thread(10 + t, class::MUTATOR);
                director::seed_thread(round * 2 + t as u64 + 1);
                b.wait();
                let a = h.add_signal(same).is_ok();
                let c = h.add_signal(other).is_ok();
                a && c
            }));
        }
        let ok = js.into_iter().all(|j| j.join().unwrap_or(false));
        director::clear_rules();
        if !ok {
            wr(fd, &format!("BAD round {}: a concurrent add_signal of a valid signal failed or panicked\n", round));
        }
        for s in sigs.iter() {
            let before = STORED.load(Ordering::SeqCst);
            let b0 = crate::sig::fionread(rfd);
            unsafe { libc::raise(*s) };
            let ran = STORED.load(Ordering::SeqCst) - before;
            let bytes = crate::sig::fionread(rfd) - b0;
            if ran > 1 || bytes > 1 {
                wr(fd, &format!("BAD round {}: after two threads added signal {} concurrently one delivery ran {} actions of the instance and wrote {} wake bytes (re-adding must be a no-op)\n", round, s, ran, bytes));
            }
        }
        // the last two owners (the instance and one more handle) are dropped by two threads at the same moment
        {
            let h2: Handle = d.handle();
            let b2 = Arc::new(std::sync::Barrier::new(2));
            let bb = b2.clone();
            let jt = std::thread::spawn(move || {
                crate::set_thread(12, class::MUTATOR);
                bb.wait();
                drop(h2);
                director::lib_exit();
            });
            b2.wait();
            drop(d);
            let _ = jt.join();
        }
        let before = STORED.load(Ordering::SeqCst);
        for s in sigs.iter() {
            unsafe { libc::raise(*s) };
        }
        if STORED.load(Ordering::SeqCst) != before {
            wr(fd, &format!("BAD round {}: {} actions of the instance still ran after it and its handles were dropped (concurrent add_signal leaked a registration)\n", round, STORED.load(Ordering::SeqCst) - before));
        }
        if crate::sig::open_fds() != base {
            wr(fd, &format!("BAD round {}: descriptors {:?} differ from the baseline {:?} after the drop\n", round, crate::sig::open_fds(), base));
            break;
        }
    }
    if crate::istep::supported() {
        drop_sweep(fd, &base);
    }
    churn_two_owners(fd, &base);
    drop_during_held_delivery(fd, &base);
    wr(fd, "DONE\n");
    0
}

/// Two threads create and drop their own instances (different signals) at the same time, 300 times each: every instance
/// reports its own signal, nothing of it is left afterwards.
fn churn_two_owners(fd: i32, base: &[c_int]) {
    use crate::fork::wr;
    let mut js = Vec::new();
    for (t, sig) in [libc::SIGUSR1, libc::SIGUSR2].iter().cloned().enumerate() {
        js.push(std::thread::spawn(move || {
            crate::set_thread(10 + t as u32, class::MUTATOR);
            let mut missed = 0u64;
            for _ in 0..300 {
                if let Ok(mut s) = signal_hook::iterator::Signals::new([sig]) {
                    unsafe { libc::raise(sig) };
                    if !s.pending().any(|x| x == sig) {
                        missed += 1;
                    }
                    drop(s);
                } else {
                    missed += 1;
                }
                director::lib_exit();
            }
            missed
        }));
    }
    let missed: u64 = js.into_iter().map(|j| j.join().unwrap_or(1)).sum();
    if missed > 0 {
        wr(fd, &format!("BAD churn: {} of 600 instances created and dropped by two threads at once did not report the delivery of their own signal\n", missed));
    }
    let before = STORED.load(Ordering::SeqCst);
    unsafe {
        libc::raise(libc::SIGUSR1);
        libc::raise(libc::SIGUSR2);
    }
    if STORED.load(Ordering::SeqCst) != before {
        wr(fd, &format!("BAD churn: {} actions of instances still ran after it and its handles were dropped (instances created and dropped by two threads at once)\n", STORED.load(Ordering::SeqCst) - before));
    }
    if crate::sig::open_fds() != base {
        wr(fd, &format!("BAD churn: descriptors {:?} differ from the baseline {:?} after all instances were dropped\n", crate::sig::open_fds(), base));
    }
}

static HELD: std::sync::atomic::AtomicBool = std::sync::atomic::AtomicBool::new(false);

/// The instance is dropped while a delivery of its signal is inside another (slow) action for 300 ms: the drop waits for that
/// delivery, and when it returns everything of the instance has been released.
fn drop_during_held_delivery(fd: i32, base: &[c_int]) {
    use crate::fork::wr;
    let sig = libc::SIGHUP;
    let slow = unsafe {
        signal_hook_registry::register(sig, || {
            HELD.store(true, Ordering::SeqCst);
            let ts = libc::timespec { tv_sec: 0, tv_nsec: 300_000_000 };
            let mut rem = ts;
            libc::nanosleep(&ts, &mut rem);
            HELD.store(false, Ordering::SeqCst);
        })
    };
    for round in 0..2 {
        let (r, w) = UnixStream::pair().unwrap();
        let d = match SignalDelivery::with_pipe(r, w, SignalOnly, [sig]) {
            Ok(d) => d,
            Err(_) => break,
        };
        let jt = std::thread::spawn(move || {
            crate::set_thread(12, class::VICTIM);
            unsafe { libc::raise(sig) };
        });
        let t0 = crate::now_ms();
        while !HELD.load(Ordering::SeqCst) && crate::now_ms() - t0 < 5000 {
            std::thread::yield_now();
        }
        drop(d);
        let still = HELD.load(Ordering::SeqCst);
        let fds = crate::sig::open_fds();
        let _ = jt.join();
        if still {
            wr(fd, &format!("BAD held delivery round {}: the drop of the instance returned while a delivery that had begun before it is still inside the handler\n", round));
        }
        if fds != base {
            wr(fd, &format!("BAD held delivery round {}: when the drop of the instance returned its descriptors were not released: {:?}, baseline {:?} (a delivery of its signal was inside another action meanwhile)\n", round, fds, base));
            break;
        }
    }
    if let Ok(id) = slow {
        signal_hook_registry::unregister(id);
    }
}

static DROP_GO: std::sync::atomic::AtomicBool = std::sync::atomic::AtomicBool::new(false);
static DROP_DONE: std::sync::atomic::AtomicBool = std::sync::atomic::AtomicBool::new(false);

fn drop_rendezvous(_k: u64, _rip: usize) {
    DROP_GO.store(true, Ordering::SeqCst);
    let mut i = 0u64;
    while !DROP_DONE.load(Ordering::SeqCst) {
        i += 1;
        if i % 64 == 0 {
            unsafe { libc::sched_yield() };
        }
    }
}

/// The last two owners of an instance go away at the same time, at instruction granularity: one thread single-steps through
/// the drop of its handle and stands still at the k-th instruction while the other thread drops the instance completely
/// (for every k). Whoever is last must clean up: nothing of the instance may run afterwards, its descriptors are closed.
fn drop_sweep(fd: i32, base: &[c_int]) {
    use crate::fork::wr;
    crate::istep::install();
    let sig = libc::SIGUSR1;
    let mut n = 400u64;
    let mut k = 0u64;
    let mut fired_n = 0u64;
    while k <= n + 2 {
        let (r, w) = UnixStream::pair().unwrap();
        let d = match SignalDelivery::with_pipe(r, w, WithRawSiginfo, [sig]) {
            Ok(d) => d,
            Err(e) => {
                wr(fd, &format!("BAD with_pipe failed: {}\n", e));
                return;
            }
        };
        let h2: Handle = d.handle();
        DROP_GO.store(false, Ordering::SeqCst);
        DROP_DONE.store(false, Ordering::SeqCst);
        let target = if k == 0 { u64::MAX - 1 } else { k };
        let jt = std::thread::spawn(move || {
            crate::set_thread(12, class::MUTATOR);
            crate::istep::arm(target, 100_000, drop_rendezvous);
            drop(h2);
            let r = crate::istep::disarm();
            director::lib_exit();
            r
        });
        while !DROP_GO.load(Ordering::SeqCst) && !jt.is_finished() {
            std::thread::yield_now();
        }
        drop(d);
        DROP_DONE.store(true, Ordering::SeqCst);
        let (steps, fired, _) = jt.join().unwrap_or((0, false, 0));
        if k == 0 {
            n = steps.min(3000);
        } else if fired {
            fired_n += 1;
        }
        let before = STORED.load(Ordering::SeqCst);
        unsafe { libc::raise(sig) };
        if STORED.load(Ordering::SeqCst) != before {
            wr(fd, &format!("BAD drop sweep k={}: an action of the instance still ran after it and its handles were dropped (the instance was dropped by one thread while another stood at instruction {} of the drop of the last other handle)\n", k, k));
            return;
        }
        if crate::sig::open_fds() != base {
            wr(fd, &format!("BAD drop sweep k={}: descriptors {:?} differ from the baseline {:?} after both owners were dropped\n", k, crate::sig::open_fds(), base));
            return;
        }
        k += 1;
    }
    wr(fd, &format!("DROPSWEEP instructions={} fired={}\n", n, fired_n));
}

pub fn main(args: &[String]) -> i32 {
    let _ = valid();
    let seed = arg_u64(args, "--seed", 1);
    let n = arg_u64(args, "--scripts", 300);
    let full = crate::has_flag(args, "--all-numbers");
    crate::set_thread(1, class::MAIN);
    director::install();
    director::set_observer(Some(observer));
    let mut rng = Rng::new(seed);
    let t0 = crate::now_ms();
    let mut rejects: Vec<c_int> = Vec::new();
    if full {
        rejects.extend(-2..=130);
        rejects.extend([i32::MIN, i32::MIN + 1, -129, 255, 256, 1000, 65536, i32::MAX]);
    } else {
        rejects.extend([-1, -2, 0, 4, 8, 9, 11, 19, 32, 33, 65, 70, 127, 128, 129, 1000, i32::MAX, i32::MIN]);
    }
    let mut bad: Vec<(String, String)> = Vec::new();
    let mut keys = std::collections::HashSet::new();
    let mut samples = Vec::new();
    let mut scripts = 0u64;
    let mut inconclusive = None;
    let mut outcome_counts = [0u64; 3];
    'all: for i in 0..n {
        for ex in 0..3u32 {
            let reject = rejects[(i as usize + ex as usize * 5 + seed as usize) % rejects.len()];
            // valid numbers are not "rejects": skip them in the full range
            if expected_class(reject) == Class::Ok {
                continue;
            }
            let script = gen_script(&mut rng, reject);
            let ename = ["SignalOnly", "WithRawSiginfo", "WithOrigin"][ex as usize];
            let sc = script.clone();
            let res = fork::probe(30_000, false, move |fd| {
                std::panic::set_hook(Box::new(|_| {}));
                let mut out = Vec::new();
                match ex {
                    0 => run_script(&|| SignalOnly, &sc, &mut out),
                    1 => run_script(&|| WithRawSiginfo, &sc, &mut out),
                    _ => run_script(&WithOrigin::default, &sc, &mut out),
                }
                for o in out.iter() {
                    fork::wr(fd, &format!("BAD {}\n", o));
                }
                fork::wr(fd, "DONE\n");
                0
            });
            scripts += 1;
            let label = format!("{} reject={} script={:?}", ename, reject, script);
            match res.end {
                End::Exit(0) if res.out.contains("DONE") => {}
                End::Timeout => {
                    inconclusive = Some(format!("script timed out: {}", label));
                    break 'all;
                }
                End::Signal(sig, _) => bad.push((
                    format!("process-killed-by-signal-{}", sig),
                    format!("the process was terminated by signal {} (abort = 6) while running: {}", sig, label),
                )),
                other => bad.push(("process-ended-abnormally".into(), format!("child ended {:?}: {}", other, label))),
            }
            for l in res.out.lines() {
                if let Some(b) = l.strip_prefix("BAD ") {
                    let sigv = if b.contains("Init called multiple times") { "slot-initialised-twice" }
                        else if b.contains("PoisonError") || b.contains("poisoned") { "id-table-mutex-poisoned" }
                        else if b.contains("add_signal(") { "add-signal-outcome" }
                        else if b.contains("constructor") { "constructor-outcome-or-leftover" }
                        else if b.contains("epilogue: after the instance") { "registration-survives-owner" }
                        else if b.contains("after that descriptor had been closed") { "wake-after-close" }
                        else if b.contains("descriptors") { "pipe-not-closed" }
                        else if b.contains("foreign") || b.contains("did not make") { "foreign-registration-removed" }
                        else if b.contains("wake bytes") || b.contains("re-adding") { "readd-not-noop" }
                        else if b.contains("ran") { "wrong-actions-after-step" }
                        else if b.contains("panicked") { "drop-panicked" }
                        else { "instance-misc" };
                    bad.push((sigv.to_string(), format!("{} || {}", b, label)));
                }
            }
            let cls = expected_class(reject);
            outcome_counts[cls as usize] += 1;
            if keys.insert(format!("{}:{}:{:?}", ename, reject, cls)) && samples.len() < 6 {
                samples.push(J::s(&label.chars().take(400).collect::<String>()));
            }
            if !bad.is_empty() && !crate::has_flag(args, "--keep-going") {
                break 'all;
            }
        }
    }
    // ---- concurrent additions
    let conc_rounds = arg_u64(args, "--concurrent", 200);
    let mut concurrent_rounds_done = 0u64;
    let mut drop_sweep_points = 0u64;
    if bad.is_empty() && conc_rounds > 0 {
        let res = fork::probe(300_000, false, move |fd| concurrent_adds(conc_rounds, seed, fd));
        if !res.out.contains("DONE") {
            bad.push(("concurrent-add-died".into(), format!("concurrent add_signal run ended {:?}: {}", res.end, res.out.lines().last().unwrap_or(""))));
        } else {
            concurrent_rounds_done = conc_rounds;
        }
        for l in res.out.lines().filter(|l| l.starts_with("BAD ")).take(3) {
            let sg = if l.contains("held delivery") { "owner-drop-during-delivery" } else if l.contains("churn") { "concurrent-instances-interfere" } else if l.contains("drop sweep") { "concurrent-drop-leaks-registration" } else if l.contains("still ran") || l.contains("descriptors") { "concurrent-add-leaks-registration" } else { "concurrent-add-registers-twice" };
            bad.push((sg.into(), l[4..].to_string()));
        }
        keys.insert("concurrent-adds".to_string());
        if let Some(l) = res.out.lines().find(|l| l.starts_with("DROPSWEEP ")) {
            for kv in l.split_whitespace() {
                if let Some(v) = kv.strip_prefix("fired=") {
                    drop_sweep_points = v.parse().unwrap_or(0);
                }
            }
            keys.insert("drop-sweep".to_string());
        }
    }
    director::uninstall();
    let mut nviol = 0;
    let mut seen = std::collections::HashSet::new();
    for (s, d) in bad.iter() {
        if seen.insert(s.clone()) {
            emit_violation("C12", s, d);
            nviol += 1;
            if d.contains("still ran after it and its handles were dropped") || d.contains("after the instance and all handles are gone a delivery still ran") || d.contains("held delivery") {
                // removal by dropping the owner returned, yet one of its actions starts again (C01)
                emit_violation("C01", "action-runs-after-owner-drop", d);
            }
        }
    }
    emit(&J::obj()
        .set("type", J::s("summary"))
        .set("workload", J::s("w_instance"))
        .set("seed", J::u(seed))
        .set("evaluations", J::u(scripts))
        .set("distinct_keys", J::arr(keys.iter().map(|k| J::s(k))))
        .set("samples", J::Arr(samples))
        .set("scripts_with_err_reject", J::u(outcome_counts[Class::Err as usize]))
        .set("scripts_with_panic_reject", J::u(outcome_counts[Class::Panic as usize]))
        .set("rejected_numbers_in_rotation", J::u(rejects.len() as u64))
        .set("concurrent_add_rounds", J::u(concurrent_rounds_done))
        .set("concurrent_drop_instruction_points", J::u(drop_sweep_points))
        .set("violations", J::u(nviol))
        .set("wall_ms", J::u(crate::now_ms() - t0)));
    if nviol == 0 {
        if let Some(r) = inconclusive {
            emit(&J::obj().set("type", J::s("inconclusive")).set("reason", J::s(&r)));
            return 2;
        }
    }
    if nviol > 0 { 1 } else { 0 }
}
