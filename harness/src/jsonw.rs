//! Minimal JSON value + writer (no dependencies).

use std::fmt::Write;

#[derive(Clone, Debug)]
pub enum J {
    Null,
    Bool(bool),
    Int(i64),
    UInt(u64),
    Str(String),
    Arr(Vec<J>),
    Obj(Vec<(String, J)>),
}

impl J {
    pub fn obj() -> J {
        J::Obj(Vec::new())
    }
    pub fn set(mut self, k: &str, v: J) -> J {
        if let J::Obj(ref mut o) = self {
            o.push((k.to_string(), v));
        }
        self
    }
    pub fn put(&mut self, k: &str, v: J) {
        if let J::Obj(ref mut o) = self {
            o.push((k.to_string(), v));
        }
    }
    pub fn s(x: &str) -> J {
        J::Str(x.to_string())
    }
    pub fn u(x: u64) -> J {
        J::UInt(x)
    }
    pub fn i(x: i64) -> J {
        J::Int(x)
    }
    pub fn arr<I: IntoIterator<Item = J>>(it: I) -> J {
        J::Arr(it.into_iter().collect())
    }
    pub fn write(&self, out: &mut String) {
        match self {
            J::Null => out.push_str("null"),
            J::Bool(b) => out.push_str(if *b { "true" } else { "false" }),
            J::Int(i) => {
                let _ = write!(out, "{}", i);
            }
            J::UInt(u) => {
                let _ = write!(out, "{}", u);
            }
            J::Str(s) => {
                out.push('"');
                for c in s.chars() {
                    match c {
                        '"' => out.push_str("\\\""),
                        '\\' => out.push_str("\\\\"),
                        '\n' => out.push_str("\\n"),
                        '\t' => out.push_str("\\t"),
                        '\r' => out.push_str("\\r"),
                        c if (c as u32) < 0x20 => {
                            let _ = write!(out, "\\u{:04x}", c as u32);
                        }
                        c => out.push(c),
                    }
                }
                out.push('"');
            }
            J::Arr(a) => {
                out.push('[');
                for (i, x) in a.iter().enumerate() {
                    if i > 0 {
                        out.push(',');
                    }
                    x.write(out);
                }
                out.push(']');
            }
            J::Obj(o) => {
                out.push('{');
                for (i, (k, v)) in o.iter().enumerate() {
                    if i > 0 {
                        out.push(',');
                    }
                    J::Str(k.clone()).write(out);
                    out.push(':');
                    v.write(out);
                }
                out.push('}');
            }
        }
    }
    pub fn to_string(&self) -> String {
        let mut s = String::new();
        self.write(&mut s);
        s
    }
}

/// Report protocol of every workload: one JSON object per line on stdout, prefixed "@@ ".
pub fn emit(j: &J) {
    println!("@@ {}", j.to_string());
}

/// A violation line. `sig` is the stable signature used for known-findings matching.
pub fn emit_violation(prop: &str, sig: &str, detail: &str) {
    emit(&J::obj()
        .set("type", J::s("violation"))
        .set("property", J::s(prop))
        .set("sig", J::s(sig))
        .set("detail", J::s(detail)));
}
