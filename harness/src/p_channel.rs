//! Channel histories: runner (threads, nested operations through the hook, optional real
//! signal senders) and the offline bad-pattern checker over CALL/RET stamps.
//!
//! Values are unique (`id`), carry a drop counter slot and optionally a heap box (so that
//! ASan / Miri see leaks, double frees and use-after-free of payloads).

use std::cell::RefCell;
use std::collections::HashMap;
use std::sync::atomic::{AtomicBool, AtomicPtr, AtomicU32, AtomicU64, AtomicU8, AtomicUsize, Ordering};
use std::sync::{Arc, Barrier};

use signal_hook::low_level::channel::Channel;

use crate::director::{self, ctx, mode, RuleSpec};
use crate::evlog::{self, kind};
use crate::site;

pub const MAX_VALS: usize = 4096;
#[allow(clippy::declare_interior_mutable_const)]
const D0: AtomicU8 = AtomicU8::new(0);
pub static DROPS: [AtomicU8; MAX_VALS] = [D0; MAX_VALS];
pub static NEXT_VAL: AtomicUsize = AtomicUsize::new(1);
#[allow(clippy::declare_interior_mutable_const)]
const W0: AtomicUsize = AtomicUsize::new(0);
/// pthread_t of the worker threads of the current history, by harness thread id
pub static WORKER_PTH: [AtomicUsize; 64] = [W0; 64];

pub struct Val {
    pub id: u64,
    pub heap: Option<Box<u64>>,
}

impl Val {
    pub fn new(heap: bool) -> Val {
        let id = NEXT_VAL.fetch_add(1, Ordering::Relaxed) as u64;
        Val { id, heap: if heap { Some(Box::new(id)) } else { None } }
    }
}

impl Drop for Val {
    fn drop(&mut self) {
        if let Some(b) = self.heap.as_ref() {
            assert_eq!(**b, self.id, "payload box corrupted");
        }
        if (self.id as usize) < MAX_VALS {
            DROPS[self.id as usize].fetch_add(1, Ordering::Relaxed);
        }
        if LOG.load(Ordering::Relaxed) {
            evlog::log(kind::DROPPED, self.id, 0);
        }
    }
}

pub const OP_SEND: u64 = 1;
pub const OP_RECV: u64 = 2;
pub const NONE: u64 = u64::MAX;

/// Whether CALL/RET go to the global log (native) or nowhere (pure Miri mode: a global SeqCst
/// stamp would add the happens-before edges whose absence Miri is supposed to find).
pub static LOG: AtomicBool = AtomicBool::new(true);

thread_local! {
    /// Pure-mode thread-local record of nested receives / sends.
    pub static LOCAL_RECV: RefCell<Vec<u64>> = const { RefCell::new(Vec::new()) };
    pub static LOCAL_SENT: RefCell<Vec<u64>> = const { RefCell::new(Vec::new()) };
}

#[allow(clippy::declare_interior_mutable_const)]
const P0: AtomicU64 = AtomicU64::new(0);
/// per harness thread id: operations completed / operations currently open (nesting depth)
pub static OPS_COMPLETED: [AtomicU64; 64] = [P0; 64];
pub static OPS_OPEN: [AtomicU64; 64] = [P0; 64];

#[inline]
fn op_begin() {
    OPS_OPEN[(crate::tid() as usize) % 64].fetch_add(1, Ordering::Relaxed);
}

#[inline]
fn op_end() {
    let t = (crate::tid() as usize) % 64;
    OPS_OPEN[t].fetch_sub(1, Ordering::Relaxed);
    OPS_COMPLETED[t].fetch_add(1, Ordering::Relaxed);
}

/// Decides "an operation does not return": the thread has an operation open, completes none and burns CPU
/// (thread CPU clock, not wall time) over the observation window. Returns a description if so.
pub fn spinning_in_op(tid: u32, pth: libc::pthread_t) -> Option<String> {
    let t = (tid as usize) % 64;
    let c0 = OPS_COMPLETED[t].load(Ordering::SeqCst);
    let cpu0 = crate::probe::thread_cpu_ns(pth);
    if OPS_OPEN[t].load(Ordering::SeqCst) == 0 {
        return None;
    }
    let mut burnt = 0;
    for _ in 0..40 {
        std::thread::sleep(std::time::Duration::from_millis(100));
        if OPS_COMPLETED[t].load(Ordering::SeqCst) != c0 || OPS_OPEN[t].load(Ordering::SeqCst) == 0 {
            return None;
        }
        burnt = crate::probe::thread_cpu_ns(pth).saturating_sub(cpu0);
        if burnt > 2_000_000_000 {
            break;
        }
    }
    if burnt > 2_000_000_000 {
        Some(format!("thread {} has burnt {} ms of CPU inside one channel operation without completing it", tid, burnt / 1_000_000))
    } else {
        None
    }
}

/// If non-zero: the next outermost operation single-steps itself from its first instruction and runs the nested
/// operation list at the k-th one (see `istep`); the window ends at the operation's first hook arrival.
pub static STEP_FROM_START: AtomicU64 = AtomicU64::new(0);

fn step_nested(_k: u64, _rip: usize) {
    nested_call(0, 0, 0);
}

#[inline]
fn step_begin() {
    let k = STEP_FROM_START.swap(0, Ordering::SeqCst);
    if k != 0 {
        crate::istep::arm(k, 20_000, step_nested);
    }
}

#[inline]
pub fn do_send(ch: &Channel<Val>, v: Val) -> u64 {
    let id = v.id;
    op_begin();
    if LOG.load(Ordering::Relaxed) {
        evlog::log(kind::CALL, OP_SEND, id);
    }
    step_begin();
    ch.send(v);
    if LOG.load(Ordering::Relaxed) {
        evlog::log(kind::RET, OP_SEND, id);
    }
    op_end();
    id
}

#[inline]
pub fn do_recv(ch: &Channel<Val>) -> Option<u64> {
    op_begin();
    if LOG.load(Ordering::Relaxed) {
        evlog::log(kind::CALL, OP_RECV, 0);
    }
    step_begin();
    let r = ch.recv();
    op_end();
    let id = r.as_ref().map(|v| v.id);
    if LOG.load(Ordering::Relaxed) {
        evlog::log(kind::RET, OP_RECV, id.unwrap_or(NONE));
    }
    if let Some(v) = r.as_ref() {
        if let Some(b) = v.heap.as_ref() {
            assert_eq!(**b, v.id, "received payload box does not match its id");
        }
    }
    drop(r);
    id
}

// ---- nested operations through the hook (Call rule) or from a real signal handler
pub static CUR_CHAN: AtomicPtr<Channel<Val>> = AtomicPtr::new(std::ptr::null_mut());
/// 1 = send, 2 = recv, 3 = 5 sends, 4 = 5 recvs, 5 = send then recv, 6 = recv then send
pub static NEST_KIND: AtomicU32 = AtomicU32::new(0);
pub static NEST_HEAP: AtomicBool = AtomicBool::new(false);
pub static NEST_RAN: AtomicU64 = AtomicU64::new(0);
pub static NEST_PANICS: AtomicU64 = AtomicU64::new(0);

fn nested_ops() {
    let p = CUR_CHAN.load(Ordering::SeqCst);
    if p.is_null() {
        return;
    }
    let ch = unsafe { &*p };
    let heap = NEST_HEAP.load(Ordering::Relaxed);
    let pure = !LOG.load(Ordering::Relaxed);
    let send = |n: usize| {
        for _ in 0..n {
            let id = do_send(ch, Val::new(heap));
            if pure {
                LOCAL_SENT.with(|l| l.borrow_mut().push(id));
            }
        }
    };
    let recv = |n: usize| {
        for _ in 0..n {
            if let Some(id) = do_recv(ch) {
                if pure {
                    LOCAL_RECV.with(|l| l.borrow_mut().push(id));
                }
            }
        }
    };
    match NEST_KIND.load(Ordering::Relaxed) {
        1 => send(1),
        2 => recv(1),
        3 => send(5),
        4 => recv(5),
        5 => {
            send(1);
            recv(1)
        }
        6 => {
            recv(1);
            send(1)
        }
        7 => send(6),
        _ => {}
    }
    NEST_RAN.fetch_add(1, Ordering::SeqCst);
}

/// Hook callback for `mode::CALL`: nested operations on the same thread, panics caught.
pub fn nested_call(_s: u32, _a: usize, _b: usize) {
    let r = std::panic::catch_unwind(nested_ops);
    if r.is_err() {
        NEST_PANICS.fetch_add(1, Ordering::SeqCst);
    }
}

/// Action for real-signal nesting: a heap-free send (the handler must not allocate).
pub fn signal_send_action() {
    let p = CUR_CHAN.load(Ordering::SeqCst);
    if p.is_null() {
        return;
    }
    let ch = unsafe { &*p };
    do_send(ch, Val::new(false));
    NEST_RAN.fetch_add(1, Ordering::Relaxed);
}

struct DoneOnUnwind {
    done: Arc<AtomicU64>,
    armed: bool,
}

impl Drop for DoneOnUnwind {
    fn drop(&mut self) {
        if self.armed {
            self.done.fetch_add(1, Ordering::SeqCst);
        }
    }
}

#[derive(Clone, Debug)]
pub struct HistCfg {
    pub producers: usize,
    pub sends_per: usize,
    pub consumers: usize,
    pub recvs_per: usize,
    pub heap: bool,
    /// Pre-fill the channel with this many values before the threads start.
    pub prefill: usize,
    /// If non-zero: a killer thread bombards the workers with this signal while they run (the
    /// registered action does a heap-free send on the current channel).
    pub signal: i32,
    pub seed: u64,
}

pub struct HistOut {
    /// per consumer: ids received in order (pure mode also includes nested receives in LOCAL order)
    pub received: Vec<Vec<u64>>,
    pub sent: Vec<Vec<u64>>,
    pub drained: Vec<u64>,
    pub first_val: usize,
    pub last_val: usize,
    pub problems: Vec<String>,
}

/// Runs one history on a fresh channel. All threads are joined, the channel is drained and
/// dropped before this returns, so every history is closed.
pub fn run_history(cfg: &HistCfg) -> HistOut {
    let first_val = NEXT_VAL.load(Ordering::SeqCst);
    let ch: Arc<Channel<Val>> = Arc::new(Channel::new());
    let mut pre = Vec::new();
    for _ in 0..cfg.prefill {
        pre.push(do_send(&ch, Val::new(cfg.heap)));
    }
    CUR_CHAN.store(Arc::as_ptr(&ch) as *mut _, Ordering::SeqCst);
    let barrier = Arc::new(Barrier::new(cfg.producers + cfg.consumers + 1));
    let done = Arc::new(AtomicU64::new(0));
    let exit_ok = Arc::new(AtomicBool::new(false));
    let mut pj = Vec::new();
    for p in 0..cfg.producers {
        let ch = ch.clone();
        let b = barrier.clone();
        let c = cfg.clone();
        let (done, exit_ok) = (done.clone(), exit_ok.clone());
        pj.push(std::thread::spawn(move || {
            crate::set_thread(10 + p as u32, crate::class::PRODUCER);
            WORKER_PTH[10 + p].store(unsafe { libc::pthread_self() } as usize, Ordering::SeqCst);
            if c.signal != 0 {
                crate::pool::add_target(0);
            }
            b.wait();
            // a worker that panics inside the channel still counts as finished (its join reports the panic)
            let mut dg = DoneOnUnwind { done: done.clone(), armed: true };
            let mut sent = Vec::new();
            for _ in 0..c.sends_per {
                sent.push(do_send(&ch, Val::new(c.heap)));
            }
            director::lib_exit();
            dg.armed = false;
            done.fetch_add(1, Ordering::SeqCst);
            while c.signal != 0 && !exit_ok.load(Ordering::SeqCst) {
                std::thread::yield_now();
            }
            director::flush_counts();
            let nested_sent = LOCAL_SENT.with(|l| std::mem::take(&mut *l.borrow_mut()));
            let nested_recv = LOCAL_RECV.with(|l| std::mem::take(&mut *l.borrow_mut()));
            (sent, nested_sent, nested_recv)
        }));
    }
    let mut cj = Vec::new();
    for c in 0..cfg.consumers {
        let ch = ch.clone();
        let b = barrier.clone();
        let cf = cfg.clone();
        let (done, exit_ok) = (done.clone(), exit_ok.clone());
        cj.push(std::thread::spawn(move || {
            crate::set_thread(30 + c as u32, crate::class::CONSUMER);
            WORKER_PTH[30 + c].store(unsafe { libc::pthread_self() } as usize, Ordering::SeqCst);
            if cf.signal != 0 {
                crate::pool::add_target(0);
            }
            b.wait();
            let mut dg = DoneOnUnwind { done: done.clone(), armed: true };
            let mut got = Vec::new();
            for _ in 0..cf.recvs_per {
                if let Some(id) = do_recv(&ch) {
                    got.push(id);
                }
            }
            director::lib_exit();
            dg.armed = false;
            done.fetch_add(1, Ordering::SeqCst);
            while cf.signal != 0 && !exit_ok.load(Ordering::SeqCst) {
                std::thread::yield_now();
            }
            director::flush_counts();
            let nested_sent = LOCAL_SENT.with(|l| std::mem::take(&mut *l.borrow_mut()));
            let nested_recv = LOCAL_RECV.with(|l| std::mem::take(&mut *l.borrow_mut()));
            (got, nested_sent, nested_recv)
        }));
    }
    let mut out = HistOut { received: vec![], sent: vec![pre], drained: vec![], first_val, last_val: 0, problems: vec![] };
    let stop_k = Arc::new(AtomicBool::new(false));
    let killer = if cfg.signal != 0 {
        let stop_k = stop_k.clone();
        let (sig, seed) = (cfg.signal, cfg.seed);
        Some(std::thread::spawn(move || {
            crate::set_thread(60, crate::class::KILLER);
            let kc = crate::pool::KillerCfg {
                sigs: vec![crate::pool::SigSpec { sig, queued: false }],
                gap: 30,
                mutator_share: 1,
                log_sends: false,
            };
            crate::pool::killer_loop(&stop_k, &kc, seed)
        }))
    } else {
        None
    };
    barrier.wait();
    {
        let t0 = crate::now_ms();
        while done.load(Ordering::SeqCst) < (cfg.producers + cfg.consumers) as u64 {
            std::thread::yield_now();
            if cfg!(miri) {
                // no clocks / CPU probes under the interpreter: Miri itself reports deadlocks, its slowness is no verdict
                continue;
            }
            if crate::now_ms() - t0 > 10_000 {
                // who is stuck? a thread burning CPU inside one operation that never completes is the verdict
                let mut verdict = None;
                for t in (10..10 + cfg.producers as u32).chain(30..30 + cfg.consumers as u32) {
                    let pth = WORKER_PTH[(t as usize) % 64].load(Ordering::SeqCst) as libc::pthread_t;
                    if pth != 0 {
                        if let Some(m) = spinning_in_op(t, pth) {
                            verdict = Some(m);
                            break;
                        }
                    }
                }
                match verdict {
                    Some(m) => {
                        crate::jsonw::emit_violation("C08", "channel-op-does-not-return", &format!("{} (a send in a signal handler that interrupted an operation on the same thread, or with other threads mid-operation)", m));
                        unsafe { libc::_exit(1) };
                    }
                    None => {
                        out.problems.push("WATCHDOG workers did not finish under signal fire".to_string());
                        crate::jsonw::emit(&crate::jsonw::J::obj().set("type", crate::jsonw::J::s("inconclusive")).set("reason", crate::jsonw::J::s("channel workers neither finished nor were found spinning inside an operation")));
                        unsafe { libc::_exit(2) };
                    }
                }
            }
        }
    }
    if let Some(k) = killer {
        stop_k.store(true, Ordering::SeqCst);
        let _ = k.join();
    }
    exit_ok.store(true, Ordering::SeqCst);
    for j in pj {
        match j.join() {
            Ok((s, ns, nr)) => {
                out.sent.push(s);
                out.sent.push(ns);
                out.received.push(nr);
            }
            Err(_) => out.problems.push("producer thread panicked".to_string()),
        }
    }
    for j in cj {
        match j.join() {
            Ok((g, ns, nr)) => {
                out.received.push(g);
                out.sent.push(ns);
                out.received.push(nr);
            }
            Err(_) => out.problems.push("consumer thread panicked".to_string()),
        }
    }
    if cfg.signal != 0 {
        crate::pool::clear_targets();
    }
    CUR_CHAN.store(std::ptr::null_mut(), Ordering::SeqCst);
    // leave a few values inside in some histories so that Channel::drop has work to do
    let leave = first_val % 3;
    let mut drained = Vec::new();
    for _ in 0..(8usize.saturating_sub(leave * 3)) {
        match do_recv(&ch) {
            Some(id) => drained.push(id),
            None => break,
        }
    }
    if leave == 0 {
        // The channel is empty and nobody else is inside: all five slots must be usable again (a slot index that is
        // in neither queue would show here as a send discarded with fewer than five values outstanding).
        let mut probe = Vec::new();
        for _ in 0..5 {
            probe.push(do_send(&ch, Val::new(cfg.heap)));
        }
        let mut back = Vec::new();
        while let Some(id) = do_recv(&ch) {
            back.push(id);
            if back.len() > 8 {
                break;
            }
        }
        if back != probe {
            out.problems.push(format!("CAPACITY with the channel empty and every thread joined, five sends {:?} came back as {:?}", probe, back));
        }
        out.sent.push(probe);
        drained.extend(back);
    }
    out.drained = drained;
    if LOG.load(Ordering::Relaxed) {
        evlog::log(kind::MARK, 1, 0);
    }
    match Arc::try_unwrap(ch) {
        Ok(c) => drop(c),
        Err(_) => out.problems.push("channel still shared after join".to_string()),
    }
    out.last_val = NEXT_VAL.load(Ordering::SeqCst);
    out
}

/// Thread-local ("pure") checks that need no global order: nothing invented, nothing twice,
/// per-producer order inside each receiver's own sequence, every value dropped exactly once.
pub fn check_pure(out: &HistOut) -> Vec<String> {
    let mut bad = out.problems.clone();
    let mut owner: HashMap<u64, (usize, usize)> = HashMap::new(); // id -> (sender list, position)
    for (li, l) in out.sent.iter().enumerate() {
        for (pi, id) in l.iter().enumerate() {
            owner.insert(*id, (li, pi));
        }
    }
    let mut seen: HashMap<u64, usize> = HashMap::new();
    for (ri, l) in out.received.iter().chain(std::iter::once(&out.drained)).enumerate() {
        let mut last_pos: HashMap<usize, usize> = HashMap::new();
        for id in l {
            match owner.get(id) {
                None => bad.push(format!("received value {} that was never sent", id)),
                Some((li, pi)) => {
                    if let Some(prev) = last_pos.get(li) {
                        if *prev > *pi {
                            bad.push(format!("receiver {} got value {} after a later value of the same sender", ri, id));
                        }
                    }
                    last_pos.insert(*li, *pi);
                }
            }
            if seen.insert(*id, ri).is_some() {
                bad.push(format!("value {} received twice", id));
            }
        }
    }
    for id in out.first_val..out.last_val {
        if id < MAX_VALS {
            let d = DROPS[id].load(Ordering::SeqCst);
            if d != 1 {
                bad.push(format!("value {} dropped {} times", id, d));
            }
        }
    }
    bad
}

// ------------------------------------------------------------------------------------------
// Offline checker over the global log.

#[derive(Clone, Debug)]
pub struct OpRec {
    pub tid: u32,
    pub call: usize,
    pub ret: usize,
    pub val: u64,
}

#[derive(Default)]
pub struct LogStats {
    pub sends: u64,
    pub recvs: u64,
    pub recv_none: u64,
    pub discarded: u64,
    pub overlapping_ops: u64,
    pub nested_ops: u64,
    pub fingerprint: u64,
}

pub fn check_log(evs: &[evlog::Ev], first_val: usize, last_val: usize) -> (Vec<String>, LogStats) {
    let mut bad = Vec::new();
    let mut st = LogStats::default();
    let mut sends: Vec<OpRec> = Vec::new();
    let mut recvs: Vec<OpRec> = Vec::new();
    // per-thread stacks of open ops (nested ops on one thread are properly nested)
    let mut open: HashMap<u32, Vec<(u64, usize, u64)>> = HashMap::new();
    let mut drop_stamp: HashMap<u64, usize> = HashMap::new();
    let mut drop_tid: HashMap<u64, u32> = HashMap::new();
    let mut mark = usize::MAX;
    for (stamp, e) in evs.iter().enumerate() {
        if e.kind == kind::MARK && e.a == 1 {
            mark = stamp;
        } else if e.kind == kind::DROPPED {
            drop_stamp.insert(e.a, stamp);
            drop_tid.insert(e.a, e.tid);
        } else if e.kind == kind::CALL {
            let stck = open.entry(e.tid).or_default();
            if !stck.is_empty() {
                st.nested_ops += 1;
            }
            stck.push((e.a, stamp, e.b));
        } else if e.kind == kind::RET {
            let stck = open.entry(e.tid).or_default();
            match stck.pop() {
                Some((op, call, arg)) if op == e.a => {
                    if op == OP_SEND {
                        sends.push(OpRec { tid: e.tid, call, ret: stamp, val: arg });
                    } else {
                        recvs.push(OpRec { tid: e.tid, call, ret: stamp, val: e.b });
                    }
                }
                _ => bad.push(format!("log: RET without matching CALL at stamp {}", stamp)),
            }
        }
    }
    for (tid, s) in open.iter() {
        if !s.is_empty() {
            bad.push(format!("operation on thread {} never returned (open at end of history): {:?}", tid, s));
        }
    }
    st.sends = sends.len() as u64;
    st.recvs = recvs.len() as u64;
    let send_of: HashMap<u64, usize> = sends.iter().enumerate().map(|(i, s)| (s.val, i)).collect();
    let mut recv_of: HashMap<u64, usize> = HashMap::new();
    for (i, r) in recvs.iter().enumerate() {
        if r.val == NONE {
            st.recv_none += 1;
            continue;
        }
        // R1: invented
        match send_of.get(&r.val) {
            None => bad.push(format!("received value {} that was never sent", r.val)),
            Some(si) => {
                if sends[*si].call > r.ret {
                    bad.push(format!("value {} received (ret stamp {}) before its send was called (stamp {})", r.val, r.ret, sends[*si].call));
                }
            }
        }
        // R2: duplicate
        if let Some(prev) = recv_of.insert(r.val, i) {
            bad.push(format!("value {} received twice (recv ops at stamps {} and {})", r.val, recvs[prev].call, r.call));
        }
    }
    // R3: FIFO
    let got: Vec<(&OpRec, &OpRec)> = recv_of.iter().filter_map(|(v, ri)| send_of.get(v).map(|si| (&sends[*si], &recvs[*ri]))).collect();
    for (s1, r1) in got.iter() {
        for (s2, r2) in got.iter() {
            if s1.ret < s2.call && r2.ret < r1.call {
                bad.push(format!(
                    "FIFO: send({}) returned (stamp {}) before send({}) was called (stamp {}), but recv of {} returned (stamp {}) before recv of {} was called (stamp {})",
                    s1.val, s1.ret, s2.val, s2.call, s2.val, r2.ret, s1.val, r1.call
                ));
            }
        }
    }
    // R4: empty although a completed, still untaken send exists
    for r in recvs.iter().filter(|r| r.val == NONE) {
        for (s, rv) in got.iter() {
            if s.ret < r.call && r.ret < rv.call {
                bad.push(format!(
                    "recv returned empty (stamps {}..{}) although value {} was completely sent (stamp {}) and only taken later (stamp {})",
                    r.call, r.ret, s.val, s.ret, rv.call
                ));
            }
        }
    }
    // R5: unjustified discard / loss
    // a value is discarded iff it was never received and was dropped inside its own send, by the sender
    // (a received value can also be dropped inside its send interval: by a fast receiver)
    let discarded = |s: &OpRec| -> bool {
        if recv_of.contains_key(&s.val) {
            return false;
        }
        match drop_stamp.get(&s.val) {
            Some(d) => *d > s.call && *d < s.ret && drop_tid.get(&s.val) == Some(&s.tid),
            None => false,
        }
    };
    for s in sends.iter() {
        if recv_of.contains_key(&s.val) {
            continue;
        }
        if !discarded(s) {
            // must have been left inside the channel until Channel::drop (the final drain is bounded on
            // purpose): its drop is then stamped after the MARK that precedes the channel's drop
            match drop_stamp.get(&s.val) {
                Some(d) if *d > mark => {}
                Some(d) => bad.push(format!(
                    "value {} was lost: never received, dropped at stamp {} which is neither inside its own send ({}..{}) nor at channel drop (after {})",
                    s.val, d, s.call, s.ret, mark
                )),
                None => {} // never dropped: reported by the drop-count rule
            }
            continue;
        }
        st.discarded += 1;
        let mut holders = 0;
        for (v, rv) in got.iter() {
            if v.val != s.val && v.call < s.ret && !(rv.ret < s.call) {
                holders += 1;
            }
        }
        // values left inside the channel at drop (never received, but dropped by Channel::drop) also hold slots
        for v in sends.iter() {
            if v.val != s.val && !recv_of.contains_key(&v.val) && !discarded(v) && v.call < s.ret {
                holders += 1;
            }
        }
        if holders < 5 {
            bad.push(format!(
                "value {} (send stamps {}..{}) was discarded although only {} other values can have been outstanding during its send",
                s.val, s.call, s.ret, holders
            ));
        }
    }
    // R6: drops
    for id in first_val..last_val {
        if id < MAX_VALS {
            let d = DROPS[id].load(Ordering::SeqCst);
            if d != 1 {
                bad.push(format!("value {} dropped {} times", id, d));
            }
        }
    }
    // coverage numbers
    let mut all: Vec<&OpRec> = sends.iter().chain(recvs.iter()).collect();
    all.sort_by_key(|o| o.call);
    for w in all.windows(2) {
        if w[1].call < w[0].ret {
            st.overlapping_ops += 1;
        }
    }
    let mut fp = 1469598103934665603u64;
    for o in all.iter() {
        let is_send = send_of.get(&o.val).map(|i| sends[*i].call == o.call).unwrap_or(false);
        fp = (fp ^ (o.tid as u64) ^ ((is_send as u64) << 8) ^ (((o.val == NONE) as u64) << 9)).wrapping_mul(1099511628211);
    }
    st.fingerprint = fp;
    (bad, st)
}

/// Resets the value id space (ids index the drop-counter table). Only at quiescence.
pub fn reset_vals() {
    let n = NEXT_VAL.load(Ordering::SeqCst).min(MAX_VALS);
    for d in DROPS.iter().take(n) {
        d.store(0, Ordering::SeqCst);
    }
    NEXT_VAL.store(1, Ordering::SeqCst);
}

/// Installs Delay rules on all channel sites.
pub fn delay_rules(p: u32, max: u32) {
    for s in [
        site::CH_DEQ_ITER, site::CH_ENQ_ITER, site::CH_ENQ_OK, site::CH_SEND_CELL_W, site::CH_SEND_FILLED,
        site::CH_RECV_CELL_R, site::CH_RECV_TAKEN, site::CH_DEQ_EMPTY,
    ] {
        director::set_rule(s, RuleSpec { mode: mode::DELAY, p, max, ..Default::default() });
    }
}

/// Installs a Call rule: at the `nth` arrival at `s` (outside any nested action) run the
/// nested operation list.
pub fn nest_rule(s: u32, nth: u64, class_mask: u32) {
    director::set_rule(
        s,
        RuleSpec { mode: mode::CALL, nth, class_mask, ctx: ctx::ANY, callf: Some(nested_call), ..Default::default() },
    );
}
