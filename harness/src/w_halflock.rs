//! w_halflock: native half-lock stress (same program as the Miri one, bigger, with delays).
use crate::director::{self, mode, RuleSpec};
use crate::jsonw::{emit, emit_violation, J};
use crate::{arg_u64, site};

pub fn main(args: &[String]) -> i32 {
    let seed = arg_u64(args, "--seed", 1);
    let rounds = arg_u64(args, "--rounds", 20);
    director::install();
    director::seed_thread(seed);
    for s in [site::HL_R_GEN, site::HL_R_INC, site::HL_R_PTR, site::HL_W_SWAPPED, site::HL_B_FLIP, site::HL_W_FREE, site::HL_B_FIRST] {
        director::set_rule(s, RuleSpec { mode: mode::DELAY, p: 8192, max: 300, ..Default::default() });
    }
    // outer watchdog: a round normally takes milliseconds; a writer that never returns is C18's subject, here it
    // only makes the run inconclusive (quickly)
    let progress = std::sync::Arc::new(std::sync::atomic::AtomicU64::new(0));
    {
        let progress = progress.clone();
        std::thread::spawn(move || {
            let mut last = (0u64, crate::now_ms());
            loop {
                std::thread::sleep(std::time::Duration::from_millis(500));
                let p = progress.load(std::sync::atomic::Ordering::SeqCst);
                if p != last.0 {
                    last = (p, crate::now_ms());
                } else if crate::now_ms() - last.1 > 60_000 {
                    emit(&J::obj().set("type", J::s("inconclusive")).set("reason", J::s("a half-lock round made no progress for 60 s (writer or reader does not return)")));
                    unsafe { libc::_exit(2) };
                }
            }
        });
    }
    let mut reads = 0;
    let mut nested = 0;
    let mut updates = 0;
    let mut versions = 0;
    let mut keys = Vec::new();
    let mut nviol = 0;
    for r in 0..rounds {
        let st = crate::p_halflock::run(4 + (r % 3) as usize, 1 + (r % 3) as usize, 20_000, 4_000, 3 + (r % 4) as usize);
        progress.fetch_add(1, std::sync::atomic::Ordering::SeqCst);
        reads += st.reads;
        nested += st.nested_reads;
        updates += st.updates;
        versions += st.versions_seen;
        keys.push(J::s(&format!("{:016x}", st.fingerprint)));
        for b in st.bad.iter().take(3) {
            emit_violation("C01", "halflock-reader-saw-released-or-stale-payload", b);
            nviol += 1;
        }
        if nviol > 0 {
            break;
        }
    }
    director::uninstall();
    emit(&J::obj()
        .set("type", J::s("summary"))
        .set("workload", J::s("w_halflock"))
        .set("seed", J::u(seed))
        .set("evaluations", J::u(updates))
        .set("reads", J::u(reads))
        .set("nested_reads", J::u(nested))
        .set("updates", J::u(updates))
        .set("version_changes_seen_by_readers", J::u(versions))
        .set("samples", J::arr(keys.iter().take(3).cloned()))
        .set("distinct_keys", J::Arr(keys)));
    if nviol > 0 { 1 } else { 0 }
}
