//! Miri program: half-lock readers (incl. nested) vs writers. One execution per Miri seed.
use vh::director::{self, mode, RuleSpec};
use vh::jsonw::{emit, emit_violation, J};
use vh::site;

fn main() {
    let args: Vec<String> = std::env::args().collect();
    let readers = vh::arg_u64(&args, "--readers", 2) as usize;
    let writers = vh::arg_u64(&args, "--writers", 2) as usize;
    let r_iters = vh::arg_u64(&args, "--r-iters", 12) as usize;
    let w_iters = vh::arg_u64(&args, "--w-iters", 6) as usize;
    let yields = vh::arg_u64(&args, "--yield-p", 20000) as u32;
    director::install();
    if yields > 0 {
        for s in [site::HL_R_GEN, site::HL_R_INC, site::HL_R_PTR, site::HL_W_SWAPPED, site::HL_B_FLIP, site::HL_W_FREE] {
            director::set_rule(s, RuleSpec { mode: mode::YIELD, p: yields, ..Default::default() });
        }
    }
    let st = vh::p_halflock::run(readers, writers, r_iters, w_iters, 3);
    for b in st.bad.iter() {
        emit_violation("C01", "halflock-reader-saw-released-or-stale-payload", b);
    }
    emit(&J::obj()
        .set("type", J::s("summary"))
        .set("workload", J::s("m_halflock"))
        .set("evaluations", J::u(1))
        .set("reads", J::u(st.reads))
        .set("nested_reads", J::u(st.nested_reads))
        .set("updates", J::u(st.updates))
        .set("versions_seen", J::u(st.versions_seen))
        .set("distinct_keys", J::arr([J::s(&format!("{:016x}", st.fingerprint))]))
        .set("samples", J::arr([J::s(&format!("readers={} writers={} reads={} nested={} updates={} fingerprint={:016x}", readers, writers, st.reads, st.nested_reads, st.updates, st.fingerprint))])));
    if !st.bad.is_empty() {
        std::process::exit(1);
    }
}
