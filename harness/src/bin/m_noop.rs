//! Builds the harness library under Miri (cache warm-up); does nothing.
fn main() {
    let _ = vh::rng::Rng::new(1).next();
}
