//! Miri program: one channel history per Miri seed, "pure" mode (no global stamps): Miri's own
//! data-race / UB / leak detection plus thread-local assertions decide.
use std::sync::atomic::Ordering;
use vh::director;
use vh::jsonw::{emit, emit_violation, J};
use vh::p_channel::{self as pc, HistCfg};
use vh::{class, site};

fn main() {
    let args: Vec<String> = std::env::args().collect();
    let shape = vh::arg_u64(&args, "--shape", 0);
    pc::LOG.store(false, Ordering::SeqCst);
    director::install();
    // nested operations at a site that depends on the shape; yields at the cell sites
    let sites = [site::CH_DEQ_ITER, site::CH_ENQ_ITER, site::CH_SEND_CELL_W, site::CH_SEND_FILLED, site::CH_RECV_CELL_R, site::CH_RECV_TAKEN, site::CH_ENQ_OK];
    pc::NEST_HEAP.store(true, Ordering::SeqCst);
    pc::NEST_KIND.store(1 + (shape % 7) as u32, Ordering::SeqCst);
    pc::nest_rule(sites[(shape as usize / 7) % sites.len()], 1 + (shape / 49) % 3, class::PRODUCER | class::CONSUMER);
    let cfg = match shape % 4 {
        0 => HistCfg { producers: 2, sends_per: 4, consumers: 1, recvs_per: 8, heap: true, prefill: 0, signal: 0, seed: 0 },
        1 => HistCfg { producers: 1, sends_per: 7, consumers: 2, recvs_per: 5, heap: true, prefill: 2, signal: 0, seed: 0 },
        2 => HistCfg { producers: 2, sends_per: 5, consumers: 2, recvs_per: 4, heap: true, prefill: 0, signal: 0, seed: 0 },
        _ => HistCfg { producers: 3, sends_per: 3, consumers: 1, recvs_per: 9, heap: true, prefill: 4, signal: 0, seed: 0 },
    };
    let out = pc::run_history(&cfg);
    let bad = pc::check_pure(&out);
    for b in bad.iter().take(4) {
        let (p, s) = if b.contains("dropped") { ("C07", "value-not-dropped-exactly-once") } else if b.contains("panicked") { ("C08", "channel-op-panicked") } else { ("C06", "channel-history-pure") };
        emit_violation(p, s, b);
    }
    if pc::NEST_PANICS.load(Ordering::SeqCst) > 0 {
        emit_violation("C08", "channel-op-panicked", "a nested channel operation panicked");
    }
    let recv_total: usize = out.received.iter().map(|l| l.len()).sum::<usize>() + out.drained.len();
    let sent_total: usize = out.sent.iter().map(|l| l.len()).sum();
    let mut fp = 1469598103934665603u64;
    for l in out.received.iter() {
        for id in l {
            fp = (fp ^ *id).wrapping_mul(1099511628211);
        }
        fp = fp.wrapping_mul(31);
    }
    emit(&J::obj()
        .set("type", J::s("summary"))
        .set("workload", J::s("m_channel"))
        .set("mode", J::s(&format!("shape{}", shape % 4)))
        .set("evaluations", J::u(1))
        .set("sends", J::u(sent_total as u64))
        .set("received", J::u(recv_total as u64))
        .set("nested_batches_run", J::u(pc::NEST_RAN.load(Ordering::SeqCst)))
        .set("distinct_keys", J::arr([J::s(&format!("{:x}", fp))]))
        .set("samples", J::arr([J::s(&format!("shape={} sent={} received={:?} drained={:?}", shape, sent_total, out.received, out.drained))])));
    if !bad.is_empty() {
        std::process::exit(1);
    }
}
