//! Native workload runner: `vh <workload> [args]`.
use vh::CountingAlloc;

#[global_allocator]
static GLOBAL: CountingAlloc = CountingAlloc;

fn main() {
    // a workload never outlives the driver that started it
    unsafe { libc::prctl(libc::PR_SET_PDEATHSIG, libc::SIGKILL) };
    let args: Vec<String> = std::env::args().collect();
    let w = args.get(1).map(|s| s.as_str()).unwrap_or("");
    let rest = &args[2.min(args.len())..];
    let code = match w {
        "w_reg" => vh::w_reg::main(rest),
        "w_channel" => vh::w_channel::main(rest),
        "w_iter" => vh::w_iter::main(rest),
        "w_close" => vh::w_close::main(rest),
        "w_instance" => vh::w_instance::main(rest),
        "w_default" => vh::w_default::main(rest),
        "w_flag" => vh::w_flag::main(rest),
        "w_forbid" => vh::w_forbid::main(rest),
        "w_pipe" => vh::w_pipe::main(rest),
        "w_origin" => vh::w_origin::main(rest),
        "w_strace" => vh::w_strace::main(rest),
        "w_model" => vh::w_model::main(rest),
        "w_chain" => vh::w_chain::main(rest),
        "w_live" => vh::w_live::main(rest),
        "w_freeze" => vh::w_freeze::main(rest),
        "w_step" => vh::w_step::main(rest),
        "w_halflock" => vh::w_halflock::main(rest),
        _ => {
            eprintln!("unknown workload {:?}", w);
            3
        }
    };
    std::process::exit(code);
}
