//! Miri program: a dequeue whose compare-exchange succeeds on a queue word that went away and came back (ABA).
//! Thread A stands still between its load of the queue word and its compare-exchange (a hook that uses Relaxed
//! atomics only, so that it adds no happens-before edge) while thread B cycles the head slot once round: the word is
//! the same again, the cell behind it has been rewritten. A's successful exchange must still order A after B's
//! rewrite of the cell - it does if the exchange acquires on success.
//!   --shape 0: the dequeue of `recv` (queue `full`); --shape 1: the dequeue of `send` (queue `empty`)
use std::cell::Cell;
use std::sync::atomic::{AtomicU32, Ordering::Relaxed};
use std::sync::Arc;

use signal_hook::low_level::channel::Channel;
use vh::jsonw::{emit, emit_violation, J};
use vh::site;

static STAGE: AtomicU32 = AtomicU32::new(0);
thread_local! {
    static IS_A: Cell<bool> = const { Cell::new(false) };
}

fn hook(s: u32, _a: usize, _b: usize) {
    if s == site::CH_DEQ_ITER && IS_A.with(|a| a.get()) && STAGE.load(Relaxed) == 0 {
        STAGE.store(1, Relaxed);
        while STAGE.load(Relaxed) != 2 {
            std::thread::yield_now();
        }
    }
}

fn main() {
    let args: Vec<String> = std::env::args().collect();
    let shape = vh::arg_u64(&args, "--shape", 0) % 2;
    let ch: Arc<Channel<Box<u64>>> = Arc::new(Channel::new());
    if shape == 0 {
        ch.send(Box::new(100));
    }
    signal_hook_registry::verif::set_hook(Some(hook));
    let a = {
        let ch = ch.clone();
        std::thread::spawn(move || {
            IS_A.with(|a| a.set(true));
            if shape == 0 {
                ch.recv().map(|b| *b)
            } else {
                ch.send(Box::new(7));
                None
            }
        })
    };
    let b = {
        let ch = ch.clone();
        std::thread::spawn(move || {
            while STAGE.load(Relaxed) != 1 {
                std::thread::yield_now();
            }
            let mut got = Vec::new();
            if shape == 0 {
                // take the value A has seen at the head, go once round the slots, leave a new value in the same slot
                got.push(ch.recv().map(|b| *b));
                for i in 1..=4u64 {
                    ch.send(Box::new(100 + i));
                    got.push(ch.recv().map(|b| *b));
                }
                ch.send(Box::new(105));
            } else {
                // five send/receive pairs: the free list is the same word again, every cell has been written and taken
                for i in 1..=5u64 {
                    ch.send(Box::new(200 + i));
                    got.push(ch.recv().map(|b| *b));
                }
            }
            STAGE.store(2, Relaxed);
            got
        })
    };
    let ra = a.join().expect("thread A");
    let rb = b.join().expect("thread B");
    signal_hook_registry::verif::set_hook(None);
    let mut rest = Vec::new();
    while let Some(v) = ch.recv() {
        rest.push(*v);
    }
    let ok = if shape == 0 {
        ra == Some(105) && rb == vec![Some(100), Some(101), Some(102), Some(103), Some(104)] && rest.is_empty()
    } else {
        rb == vec![Some(201), Some(202), Some(203), Some(204), Some(205)] && rest == vec![7]
    };
    if !ok {
        emit_violation("C06", "channel-history-pure", &format!("ABA schedule shape {}: A got {:?}, B got {:?}, left inside {:?}", shape, ra, rb, rest));
    }
    emit(&J::obj()
        .set("type", J::s("summary"))
        .set("workload", J::s("m_aba"))
        .set("mode", J::s(&format!("shape{}", shape)))
        .set("evaluations", J::u(1))
        .set("aba_schedules_forced", J::u(1))
        .set("distinct_keys", J::arr([J::s(&format!("aba{}", shape))]))
        .set("samples", J::arr([J::s(&format!("shape {}: A stood between load and compare-exchange while B cycled the head slot; A got {:?}, B got {:?}", shape, ra, rb))])));
    if !ok {
        std::process::exit(1);
    }
}
