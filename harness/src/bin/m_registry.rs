//! Miri program: the registry (register / unregister / unregister_signal) against simulated
//! deliveries incl. nested ones, with the sigaction kernel model. Thread-local assertions only;
//! Miri's UB / data-race / leak detection is the oracle for released snapshots and actions.
use std::cell::RefCell;
use std::sync::atomic::{AtomicUsize, Ordering};
use std::sync::Arc;

use vh::director::{self, mode, RuleSpec};
use vh::jsonw::{emit, emit_violation, J};
use vh::{p_kernel, site};

thread_local! {
    static RUN: RefCell<Vec<(i32, usize)>> = const { RefCell::new(Vec::new()) };
}
static DROPS: AtomicUsize = AtomicUsize::new(0);
static CREATED: AtomicUsize = AtomicUsize::new(0);
static LATE: AtomicUsize = AtomicUsize::new(0);

struct Payload {
    sig: i32,
    tag: usize,
    heap: Box<usize>,
    removed: Arc<AtomicUsize>,
}
impl Drop for Payload {
    fn drop(&mut self) {
        assert_eq!(*self.heap, self.tag);
        DROPS.fetch_add(1, Ordering::SeqCst);
    }
}

const S1: i32 = 10;
const S2: i32 = 12;

fn main() {
    let args: Vec<String> = std::env::args().collect();
    let shape = vh::arg_u64(&args, "--shape", 0);
    p_kernel::install();
    director::install();
    for s in [site::HL_R_GEN, site::HL_R_INC, site::HL_R_PTR, site::D_BEFORE_ACTION, site::HL_W_SWAPPED, site::HL_B_FLIP, site::HL_W_FREE, site::REG_BEFORE_PUBLISH, site::UNREG_BEFORE_PUBLISH] {
        director::set_rule(s, RuleSpec { mode: mode::YIELD, p: 16000, ..Default::default() });
    }
    // take both signals over up front (as the kernel would only deliver to an installed handler)
    let keep1 = unsafe { signal_hook_registry::register(S1, || ()) }.unwrap();
    let keep2 = unsafe { signal_hook_registry::register(S2, || ()) }.unwrap();
    assert!(p_kernel::taken_over(S1) && p_kernel::taken_over(S2));
    let mut bad: Vec<String> = Vec::new();
    let mut joins = Vec::new();
    // ---- dispatcher threads
    let n_disp = 2;
    for d in 0..n_disp {
        joins.push(std::thread::spawn(move || {
            vh::set_thread(10 + d as u32, vh::class::VICTIM);
            let mut problems = Vec::new();
            let mut fp = 0u64;
            for i in 0..(6 + shape % 3) as usize {
                let sig = if (i + d) % 2 == 0 { S1 } else { S2 };
                RUN.with(|r| r.borrow_mut().clear());
                p_kernel::deliver(sig, i);
                let run = RUN.with(|r| r.borrow().clone());
                // the outermost delivery's actions (nested ones are for the other signal)
                let mine: Vec<usize> = run.iter().filter(|(s, _)| *s == sig).map(|(_, t)| *t).collect();
                // registration order is known per mutator (tags of one mutator ascend); no tag twice
                for m in 1..=2usize {
                    let sub: Vec<usize> = mine.iter().cloned().filter(|t| t / 1000 == m).collect();
                    let mut sorted = sub.clone();
                    sorted.sort();
                    sorted.dedup();
                    if sorted != sub {
                        problems.push(format!("delivery of {} ran tags {:?}: not in registration order / duplicated", sig, mine));
                    }
                }
                fp = fp.wrapping_mul(1099511628211) ^ (mine.len() as u64 + 7 * run.len() as u64);
            }
            director::flush_counts();
            (problems, fp)
        }));
    }
    // ---- mutators
    let mut mjoins = Vec::new();
    for m in 0..2usize {
        mjoins.push(std::thread::spawn(move || {
            vh::set_thread(30 + m as u32, vh::class::MUTATOR);
            let mut problems = Vec::new();
            let mut live = Vec::new();
            for i in 0..(5 + (shape / 3) % 3) as usize {
                let sig = if (i + m) % 3 == 0 { S2 } else { S1 };
                let tag = 1000 * (m + 1) + i;
                let removed = Arc::new(AtomicUsize::new(0));
                CREATED.fetch_add(1, Ordering::SeqCst);
                let p = Payload { sig, tag, heap: Box::new(tag), removed: removed.clone() };
                let nest = i % 2 == 0 && sig == S1;
                let id = unsafe {
                    signal_hook_registry::register_sigaction(sig, move |info| {
                        assert_eq!(info.si_signo, p.sig, "action ran for another signal");
                        assert_eq!(*p.heap, p.tag);
                        if p.removed.load(Ordering::SeqCst) != 0 {
                            LATE.fetch_add(1, Ordering::SeqCst);
                        }
                        RUN.with(|r| r.borrow_mut().push((p.sig, p.tag)));
                        if nest {
                            // a second signal interrupts this handler
                            p_kernel::deliver(S2, 99);
                        }
                    })
                }
                .unwrap();
                live.push((id, removed, sig));
                if i % 2 == 1 {
                    let (id, removed, lsig) = live.remove(0);
                    // actions on S2 may have been removed by the other mutator's unregister_signal(S2)
                    if !signal_hook_registry::unregister(id) && lsig == S1 {
                        problems.push("unregister of a live id returned false".to_string());
                    }
                    removed.store(1, Ordering::SeqCst);
                    if signal_hook_registry::unregister(id) {
                        problems.push("second unregister returned true".to_string());
                    }
                }
                if i == 3 && m == 1 {
                    #[allow(deprecated)]
                    signal_hook_registry::unregister_signal(S2);
                }
            }
            for (id, removed, _) in live {
                signal_hook_registry::unregister(id);
                removed.store(1, Ordering::SeqCst);
            }
            director::flush_counts();
            problems
        }));
    }
    let mut fp = 0u64;
    for j in joins {
        let (p, f) = j.join().expect("dispatcher thread panicked");
        bad.extend(p);
        fp ^= f;
    }
    for j in mjoins {
        bad.extend(j.join().expect("mutator panicked"));
    }
    // everything the mutators registered has been removed: released exactly once
    #[allow(deprecated)]
    signal_hook_registry::unregister_signal(S2);
    signal_hook_registry::unregister(keep1);
    signal_hook_registry::unregister(keep2);
    let (c, d) = (CREATED.load(Ordering::SeqCst), DROPS.load(Ordering::SeqCst));
    if c != d {
        bad.push(format!("{} actions were registered and removed but {} were released", c, d));
    }
    if LATE.load(Ordering::SeqCst) > 0 {
        bad.push(format!("{} invocations started after the removal of their action had returned", LATE.load(Ordering::SeqCst)));
    }
    // deliveries now run nothing
    RUN.with(|r| r.borrow_mut().clear());
    p_kernel::deliver(S1, 0);
    p_kernel::deliver(S2, 0);
    if RUN.with(|r| r.borrow().len()) != 0 {
        bad.push("an action ran after everything was removed".to_string());
    }
    for b in bad.iter().take(4) {
        let (p, s) = if b.contains("order") { ("C02", "run-list-order") } else { ("C01", "registry-release-accounting") };
        emit_violation(p, s, b);
    }
    emit(&J::obj()
        .set("type", J::s("summary"))
        .set("workload", J::s("m_registry"))
        .set("mode", J::s(&format!("shape{}", shape % 9)))
        .set("evaluations", J::u(1))
        .set("actions_registered", J::u(c as u64))
        .set("sigaction_calls_modelled", J::u(p_kernel::SIGACTION_CALLS.load(Ordering::SeqCst) as u64))
        .set("distinct_keys", J::arr([J::s(&format!("{:x}", fp))]))
        .set("samples", J::arr([J::s(&format!("shape={} registered={} released={} fingerprint={:x}", shape, c, d, fp))])));
    if !bad.is_empty() {
        std::process::exit(1);
    }
}
