//! Miri program: the SignalOnly slot (an AtomicBool per signal) under a scan racing with a delivery. The delivery
//! parks (yield) right before its store, the scheduler preempts aggressively, so the delivery's store can land
//! between any two steps of the consumer's load of that slot. Oracle: a delivered watched signal is yielded at
//! least once by the time everything is quiet (no wake-up can be lost without a kernel, so only the flag counts).
use std::os::unix::net::UnixStream;
use std::sync::atomic::{AtomicBool, Ordering};
use std::sync::Arc;

use signal_hook::iterator::backend::SignalDelivery;
use signal_hook::iterator::exfiltrator::SignalOnly;
use vh::director::{self, mode, RuleSpec};
use vh::jsonw::{emit, emit_violation, J};
use vh::{p_kernel, site};

const S1: i32 = 10;
const S2: i32 = 12;

fn main() {
    let args: Vec<String> = std::env::args().collect();
    let shape = vh::arg_u64(&args, "--shape", 0);
    p_kernel::install();
    director::install();
    // the deliverer yields right before the store and right after it; the consumer never yields by itself
    director::set_rule(site::EX_STORE, RuleSpec { mode: mode::YIELD, p: 0, ..Default::default() });
    director::set_rule(site::IT_A_STORED, RuleSpec { mode: mode::YIELD, p: 30000, ..Default::default() });
    let (r, w) = UnixStream::pair().expect("socketpair");
    let mut delivery = SignalDelivery::with_pipe(r, w, SignalOnly, [S1, S2]).expect("with_pipe");
    let done = Arc::new(AtomicBool::new(false));
    let d2 = done.clone();
    let n = 1 + (shape % 3) as usize;
    let deliverer = std::thread::spawn(move || {
        for i in 0..n {
            p_kernel::deliver(if i % 2 == 0 { S1 } else { S2 }, i);
        }
        director::flush_counts();
        d2.store(true, Ordering::SeqCst);
        n
    });
    let mut got: Vec<i32> = Vec::new();
    let mut scans = 0;
    while !done.load(Ordering::SeqCst) {
        got.extend(delivery.pending());
        scans += 1;
    }
    let n = deliverer.join().expect("deliverer panicked");
    got.extend(delivery.pending());
    got.extend(delivery.pending());
    let mut bad = Vec::new();
    let want_s1 = (n + 1) / 2;
    let want_s2 = n / 2;
    let (c1, c2) = (got.iter().filter(|s| **s == S1).count(), got.iter().filter(|s| **s == S2).count());
    if want_s1 > 0 && c1 == 0 {
        bad.push(("C09", format!("signal {} was delivered {} time(s) but never yielded although everything is quiet now (got {:?})", S1, want_s1, got)));
    }
    if want_s2 > 0 && c2 == 0 {
        bad.push(("C09", format!("signal {} was delivered {} time(s) but never yielded (got {:?})", S2, want_s2, got)));
    }
    if c1 > want_s1 || c2 > want_s2 {
        bad.push(("C10", format!("more yields than deliveries: {:?} for {} + {} deliveries", got, want_s1, want_s2)));
    }
    drop(delivery);
    for (p, b) in bad.iter() {
        emit_violation(p, "miri-signal-only-flag", b);
    }
    emit(&J::obj()
        .set("type", J::s("summary"))
        .set("workload", J::s("m_sigonly"))
        .set("mode", J::s(&format!("shape{}", shape % 3)))
        .set("evaluations", J::u(1))
        .set("scans_during_delivery", J::u(scans))
        .set("distinct_keys", J::arr([J::s(&format!("{}:{:?}", scans.min(6), got))]))
        .set("samples", J::arr([J::s(&format!("shape={} deliveries={} scans={} yielded={:?}", shape, n, scans, got))])));
    if !bad.is_empty() {
        std::process::exit(1);
    }
}
