//! Miri program: the info-carrying iterator (WithRawSiginfo slot: lazy channel behind an
//! AtomicPtr, channel cells) with simulated deliveries from two threads, a consumer calling
//! pending(), add_signal from another thread, and the final drop. Miri's data-race / UB / leak
//! detection is the oracle; thread-local assertions check the records.
use std::os::unix::net::UnixStream;
use std::sync::atomic::{AtomicBool, Ordering};
use std::sync::Arc;

use signal_hook::iterator::backend::SignalDelivery;
use signal_hook::iterator::exfiltrator::WithRawSiginfo;
use vh::director::{self, mode, RuleSpec};
use vh::jsonw::{emit, emit_violation, J};
use vh::{p_kernel, site};

const S1: i32 = 10;
const S2: i32 = 12;
const S3: i32 = 1;

fn main() {
    let args: Vec<String> = std::env::args().collect();
    let shape = vh::arg_u64(&args, "--shape", 0);
    p_kernel::install();
    director::install();
    for s in [site::EX_STORE, site::EX_LOAD, site::CH_SEND_CELL_W, site::CH_SEND_FILLED, site::CH_RECV_CELL_R, site::CH_RECV_TAKEN, site::CH_ENQ_OK, site::IT_A_STORED, site::IT_SCAN] {
        director::set_rule(s, RuleSpec { mode: mode::YIELD, p: if s == site::IT_SCAN { 600 } else { 16000 }, ..Default::default() });
    }
    let (r, w) = UnixStream::pair().expect("socketpair");
    let mut delivery = SignalDelivery::with_pipe(r, w, WithRawSiginfo, [S1, S2]).expect("with_pipe");
    let handle = delivery.handle();
    let stop = Arc::new(AtomicBool::new(false));
    let mut dj = Vec::new();
    for d in 0..2usize {
        dj.push(std::thread::spawn(move || {
            let mut sent = Vec::new();
            for i in 0..(4 + shape % 4) as usize {
                let sig = if (i + d) % 2 == 0 { S1 } else { S2 };
                let seq = 1000 * (d + 1) + i;
                p_kernel::deliver(sig, seq);
                sent.push((sig, seq));
                if i == 2 && d == 0 {
                    // a delivery nested in user code of this thread between two others
                    p_kernel::deliver(S2, 5000 + i);
                    sent.push((S2, 5000 + i));
                }
            }
            director::flush_counts();
            sent
        }));
    }
    let adder = {
        let h = handle.clone();
        std::thread::spawn(move || {
            let r = h.add_signal(S3);
            p_kernel::deliver(S3, 7777);
            // re-adding is a no-op, a rejected number returns an error twice
            let r2 = h.add_signal(S3);
            let e1 = h.add_signal(70).is_err();
            let e2 = h.add_signal(70).is_err();
            director::flush_counts();
            (r.is_ok() && r2.is_ok(), e1 && e2)
        })
    };
    let mut got: Vec<(i32, usize)> = Vec::new();
    let mut rounds = 0;
    while !stop.load(Ordering::SeqCst) {
        for rec in delivery.pending() {
            got.push((rec.si_signo, unsafe { rec.si_value().sival_ptr as usize }));
        }
        rounds += 1;
        if dj.iter().all(|j| j.is_finished()) && adder.is_finished() {
            stop.store(true, Ordering::SeqCst);
        }
        std::thread::yield_now();
    }
    let mut sent_all: Vec<(i32, usize)> = Vec::new();
    let mut per_thread: Vec<Vec<(i32, usize)>> = Vec::new();
    for j in dj {
        let s = j.join().expect("deliverer panicked");
        sent_all.extend(s.iter().cloned());
        per_thread.push(s);
    }
    let (add_ok, err_twice) = adder.join().expect("adder panicked");
    sent_all.push((S3, 7777));
    for rec in delivery.pending() {
        got.push((rec.si_signo, unsafe { rec.si_value().sival_ptr as usize }));
    }
    let mut bad = Vec::new();
    if !add_ok {
        bad.push(("C12", "add_signal of a valid / already watched signal failed".to_string()));
    }
    if !err_twice {
        bad.push(("C12", "add_signal(70) did not return an error both times".to_string()));
    }
    let mut seen = std::collections::HashSet::new();
    for g in got.iter() {
        if !sent_all.contains(g) {
            bad.push(("C10", format!("record {:?} matches no delivery", g)));
        }
        if !seen.insert(*g) {
            bad.push(("C10", format!("record {:?} yielded twice", g)));
        }
    }
    // per deliverer and signal: records in delivery order
    for s in per_thread.iter() {
        for sig in [S1, S2] {
            let order: Vec<usize> = s.iter().filter(|x| x.0 == sig).map(|x| x.1).collect();
            let seen_order: Vec<usize> = got.iter().filter(|x| x.0 == sig && order.contains(&x.1)).map(|x| x.1).collect();
            let expect: Vec<usize> = order.iter().filter(|q| seen_order.contains(q)).cloned().collect();
            if seen_order != expect {
                bad.push(("C10", format!("records of signal {} out of delivery order: {:?} vs sent {:?}", sig, seen_order, order)));
            }
        }
    }
    drop(handle);
    drop(delivery);
    // after the drop no action of the instance is left
    p_kernel::deliver(S1, 1);
    for (p, b) in bad.iter().take(4) {
        emit_violation(p, "miri-iterator-record-check", b);
    }
    let mut fp = 1469598103934665603u64;
    for g in got.iter() {
        fp = (fp ^ g.1 as u64).wrapping_mul(1099511628211);
    }
    emit(&J::obj()
        .set("type", J::s("summary"))
        .set("workload", J::s("m_iter"))
        .set("mode", J::s(&format!("shape{}", shape % 4)))
        .set("evaluations", J::u(1))
        .set("deliveries", J::u(sent_all.len() as u64))
        .set("records", J::u(got.len() as u64))
        .set("pending_rounds", J::u(rounds))
        .set("distinct_keys", J::arr([J::s(&format!("{:x}", fp))]))
        .set("samples", J::arr([J::s(&format!("shape={} sent={:?} got={:?}", shape, sent_all, got))])));
    if !bad.is_empty() {
        std::process::exit(1);
    }
}
