//! Stuck-state probe: what a thread of this process is doing according to the kernel.

#[derive(Clone, Debug, PartialEq, Eq)]
pub struct ThreadState {
    /// 'R', 'S', 'D', ... from /proc/self/task/<tid>/stat
    pub state: char,
    /// syscall number and first argument if blocked in a syscall (from .../syscall)
    pub syscall: Option<(i64, u64)>,
    /// user+system CPU time in clock ticks
    pub cpu_ticks: u64,
}

pub fn thread_state(ktid: i32) -> Option<ThreadState> {
    let stat = std::fs::read_to_string(format!("/proc/self/task/{}/stat", ktid)).ok()?;
    let rp = stat.rfind(')')?;
    let rest: Vec<&str> = stat[rp + 1..].split_whitespace().collect();
    let state = rest.first()?.chars().next()?;
    // fields after ')' : state(0) ppid(1) ... utime is field 14 overall => index 11, stime 12
    let utime: u64 = rest.get(11)?.parse().ok()?;
    let stime: u64 = rest.get(12)?.parse().ok()?;
    let sc = std::fs::read_to_string(format!("/proc/self/task/{}/syscall", ktid)).ok();
    let syscall = sc.and_then(|s| {
        let mut it = s.split_whitespace();
        let nr = it.next()?;
        if nr == "running" {
            return None;
        }
        let nr: i64 = nr.parse().ok()?;
        if nr < 0 {
            return None;
        }
        let a0 = it.next().and_then(|x| u64::from_str_radix(x.trim_start_matches("0x"), 16).ok()).unwrap_or(0);
        Some((nr, a0))
    });
    Some(ThreadState { state, syscall, cpu_ticks: utime + stime })
}

/// True if the thread is blocked (sleeping) in the given syscall on the given first argument
/// (fd) on `samples` consecutive samples `gap_ms` apart, with `progress()` unchanged.
pub fn stably_blocked_in(
    ktid: i32,
    sysno: &[i64],
    arg0: Option<u64>,
    samples: u32,
    gap_ms: u64,
    progress: &dyn Fn() -> u64,
) -> bool {
    let p0 = progress();
    for _ in 0..samples {
        match thread_state(ktid) {
            Some(ThreadState { state, syscall: Some((nr, a0)), .. })
                if (state == 'S' || state == 'D')
                    && sysno.contains(&nr)
                    && arg0.map(|x| x == a0).unwrap_or(true) => {}
            _ => return false,
        }
        if progress() != p0 {
            return false;
        }
        std::thread::sleep(std::time::Duration::from_millis(gap_ms));
    }
    progress() == p0
}

pub fn thread_cpu_ns(th: libc::pthread_t) -> u64 {
    unsafe {
        let mut cid: libc::clockid_t = 0;
        if libc::pthread_getcpuclockid(th, &mut cid) != 0 {
            return 0;
        }
        let mut ts: libc::timespec = std::mem::zeroed();
        if libc::clock_gettime(cid, &mut ts) != 0 {
            return 0;
        }
        ts.tv_sec as u64 * 1_000_000_000 + ts.tv_nsec as u64
    }
}
