//! w_live: registry calls terminate when overlapping deliveries terminate (C18).
//!
//! --mode gate : orchestrated schedule. d1 (1..3 deliveries) is held inside its read section
//!               across the writer's swap; the writer flips the generation and spins; d2 (1..3
//!               deliveries, landing in the other slot) is started and held; d1 is released. The
//!               writer must then return on its own, counted in ITS OWN barrier iterations, while
//!               d2 is still held. (Before d1 is released the writer must NOT have returned: that
//!               is C01.) Log rule: at most 3 HL_B_SPIN after the last overlapping bracket exited.
//! --mode free : mutator mix (first/later register, unregister, unregister_signal, Signals
//!               add_signal / drop, forbidden-signal panics, concurrent first registrations)
//!               under a delivery stream with periodic quiescent points; a mutator that is
//!               blocked in futex / not progressing while nothing else can change = deadlock.

use std::sync::atomic::{AtomicBool, AtomicI32, AtomicU64, Ordering};
use std::sync::Arc;

use crate::director::{self, mode, RuleSpec};
use crate::evlog;
use crate::jsonw::{emit, emit_violation, J};
use crate::pool::{self, KillerCfg, SigSpec};
use crate::rng::Rng;
use crate::{arg_str, arg_u64, class, site};

pub const VICTIM2: u32 = 64;

static SPINS: AtomicU64 = AtomicU64::new(0);
static D1_EXITS: AtomicU64 = AtomicU64::new(0);
static OPEN_BRACKETS: AtomicU64 = AtomicU64::new(0);
static FLIPS: AtomicU64 = AtomicU64::new(0);
static SWAPS: AtomicU64 = AtomicU64::new(0);

fn observer(s: u32, _a: usize, _b: usize) {
    let cls = crate::CLASS.with(|c| c.get());
    if s == site::HL_B_SPIN && cls & class::MUTATOR != 0 {
        SPINS.fetch_add(1, Ordering::SeqCst);
    } else if s == site::HL_B_FLIP && cls & class::MUTATOR != 0 {
        FLIPS.fetch_add(1, Ordering::SeqCst);
    } else if s == site::HL_W_SWAPPED && cls & class::MUTATOR != 0 {
        SWAPS.fetch_add(1, Ordering::SeqCst);
    } else if s == site::DISPATCH_EXIT {
        if cls & class::VICTIM != 0 {
            D1_EXITS.fetch_add(1, Ordering::SeqCst);
        }
        OPEN_BRACKETS.fetch_sub(1, Ordering::SeqCst);
    } else if s == site::DISPATCH_ENTER {
        OPEN_BRACKETS.fetch_add(1, Ordering::SeqCst);
    }
}

struct Victim {
    pth: libc::pthread_t,
    ktid: i32,
    tid: u32,
    join: std::thread::JoinHandle<()>,
}

fn spawn_victim(tid: u32, cls: u32, stop: Arc<AtomicBool>) -> Victim {
    let p = Arc::new(AtomicU64::new(0));
    let p2 = p.clone();
    let k = Arc::new(AtomicI32::new(0));
    let k2 = k.clone();
    let join = std::thread::spawn(move || {
        crate::set_thread(tid, cls);
        k2.store(crate::sig::gettid(), Ordering::SeqCst);
        p2.store(unsafe { libc::pthread_self() } as u64, Ordering::SeqCst);
        pool::victim_spin(&stop);
        director::flush_counts();
    });
    while p.load(Ordering::SeqCst) == 0 {
        std::thread::yield_now();
    }
    Victim { pth: p.load(Ordering::SeqCst) as libc::pthread_t, ktid: k.load(Ordering::SeqCst), tid, join }
}

fn wait_until(what: &str, mut f: impl FnMut() -> bool, ms: u64) -> Result<(), String> {
    let t0 = crate::now_ms();
    while !f() {
        std::thread::yield_now();
        if crate::now_ms() - t0 > ms {
            return Err(format!("watchdog: {}", what));
        }
    }
    Ok(())
}

fn gate_mode(seed: u64, trials: u64) -> i32 {
    let sig = libc::SIGUSR1;
    let mut rng = Rng::new(seed);
    crate::set_thread(1, class::MAIN);
    evlog::init(1 << 20);
    director::install();
    director::set_observer(Some(observer));
    director::LOG_HOOKS.store(2, Ordering::SeqCst);
    // permanent action, so that the dispatcher passes D_BEFORE_ACTION
    let _a0 = unsafe { signal_hook_registry::register(sig, || ()) }.unwrap();
    let stop = Arc::new(AtomicBool::new(false));
    let v1: Vec<Victim> = (0..3).map(|i| spawn_victim(10 + i, class::VICTIM, stop.clone())).collect();
    let v2: Vec<Victim> = (0..3).map(|i| spawn_victim(20 + i, VICTIM2, stop.clone())).collect();
    let mut bad18: Vec<String> = Vec::new();
    let mut bad01: Vec<String> = Vec::new();
    let mut inconclusive = None;
    let mut keys = std::collections::HashSet::new();
    let mut samples = Vec::new();
    let mut done_trials = 0u64;
    let mut max_spins_after = 0u64;
    let mut live_id = None;
    // signals nothing in this process has touched yet: every eighth trial the writer's operation is the FIRST
    // registration of one of them (another signal than the one being delivered). The held deliveries walk the old
    // snapshot all the same, so that writer has to wait for them like any other.
    let mut fresh_pool: Vec<libc::c_int> = [libc::SIGUSR2, libc::SIGWINCH, libc::SIGURG]
        .iter()
        .cloned()
        .chain(35..=64)
        .filter(|&n| crate::sig::settable(n))
        .collect();
    let mut fresh_used = 0u64;
    let mut fresh_d2 = 0u64;
    let t0 = crate::now_ms();
    for trial in 0..trials {
        let k1 = 1 + (trial % 3) as usize;
        let mut k2 = ((trial / 3) % 4) as usize; // 0 = no second wave
        let fresh = if trial % 8 == 7 { fresh_pool.pop() } else { None };
        if fresh.is_some() {
            // a first registration publishes twice: the fallback (which the held d1 deliveries make it wait for), then
            // the table. The second wave starts between the two and is what the table's publication has to wait for.
            k2 = k2.max(1);
        }
        let op_register = live_id.is_none() || fresh.is_some();
        director::clear_rules();
        evlog::reset();
        evlog::enable(true);
        SPINS.store(0, Ordering::SeqCst);
        D1_EXITS.store(0, Ordering::SeqCst);
        FLIPS.store(0, Ordering::SeqCst);
        SWAPS.store(0, Ordering::SeqCst);
        director::set_rule(site::D_BEFORE_ACTION, RuleSpec { mode: mode::PAUSE, class_mask: class::VICTIM, arg: 0, ..Default::default() });
        director::set_rule(site::D_AFTER_DATA_READ, RuleSpec { mode: mode::PAUSE, class_mask: VICTIM2, arg: 1, ..Default::default() });
        let opname = match fresh {
            Some(n) => format!("first-registration-of-signal-{}", n),
            None if op_register => "register".to_string(),
            None => "unregister".to_string(),
        };
        let label = format!("trial {} d1={} d2={} op={}", trial, k1, k2, opname);
        // ---- d1: held inside the read section (old snapshot)
        for v in v1.iter().take(k1) {
            crate::sig::kill_thread(v.pth, sig);
        }
        if let Err(e) = wait_until("d1 parked", || director::parked_count(0) as usize == k1, 10_000) {
            inconclusive = Some(format!("{} [{}]", e, label));
            break;
        }
        // ---- writer
        let w_done = Arc::new(AtomicBool::new(false));
        let w_ktid = Arc::new(AtomicI32::new(0));
        let (wd, wk) = (w_done.clone(), w_ktid.clone());
        let cur = if fresh.is_some() { None } else { live_id.take() };
        let keep = if fresh.is_some() { live_id.take() } else { None };
        let wj = std::thread::spawn(move || {
            crate::set_thread(30, class::MUTATOR);
            wk.store(crate::sig::gettid(), Ordering::SeqCst);
            if let Some(n) = fresh {
                // the action stays registered; the signal is never raised
                let _ = unsafe { signal_hook_registry::register(n, || ()) }.unwrap();
                director::lib_exit();
                director::flush_counts();
                wd.store(true, Ordering::SeqCst);
                return keep;
            }
            let r = match cur {
                None => Some(unsafe { signal_hook_registry::register(sig, || ()) }.unwrap()),
                Some(id) => {
                    signal_hook_registry::unregister(id);
                    None
                }
            };
            director::lib_exit();
            director::flush_counts();
            wd.store(true, Ordering::SeqCst);
            r
        });
        // the writer has published and is waiting in the barrier: >= 2 spins after the flip
        let r = wait_until("writer spinning in the barrier", || (FLIPS.load(Ordering::SeqCst) >= 1 && SPINS.load(Ordering::SeqCst) >= 2) || w_done.load(Ordering::SeqCst), 10_000);
        if w_done.load(Ordering::SeqCst) {
            bad01.push(format!("the writer returned while {} deliveries that began before its swap are still inside their read section (paused at D_BEFORE_ACTION) [{}]", k1, label));
        } else if let Err(e) = r {
            if fresh.is_some() {
                // the writer neither waits in a barrier nor has returned. Whatever it is doing, a delivery that begins now
                // has to get through to its snapshot all the same: it may never wait for another thread.
                for v in v2.iter().take(k2) {
                    crate::sig::kill_thread(v.pth, sig);
                }
                if wait_until("d2 parked", || director::parked_count(1) as usize == k2, 3_000).is_err() {
                    let evs = evlog::snapshot();
                    let parked_now = || director::parked_count(1) as u64;
                    let asleep: Vec<u32> = v2
                        .iter()
                        .take(k2)
                        .filter(|v| {
                            let inside = evs.iter().rev().find(|e| e.tid == v.tid && (e.kind == site::DISPATCH_ENTER || e.kind == site::DISPATCH_EXIT)).map(|e| e.kind == site::DISPATCH_ENTER).unwrap_or(false);
                            inside && crate::probe::stably_blocked_in(v.ktid, &[202], None, 10, 10, &parked_now)
                        })
                        .map(|v| v.tid)
                        .collect();
                    if !asleep.is_empty() {
                        let d = format!(
                            "{} deliveries are paused inside the dispatcher, a writer is in the middle of the first registration of another signal (neither returned nor waiting in a barrier), and {} deliveries that began after that (threads {:?}) sleep in futex inside the dispatcher before reaching their snapshot [{}]",
                            k1, asleep.len(), asleep, label
                        );
                        emit_violation("C03", "delivery-sleeps-in-futex-behind-waiting-writer", &d);
                        emit(&J::obj()
                            .set("type", J::s("summary"))
                            .set("workload", J::s("w_live"))
                            .set("mode", J::s("gate"))
                            .set("seed", J::u(seed))
                            .set("evaluations", J::u(done_trials + 1))
                            .set("gate_trials", J::u(done_trials + 1))
                            .set("violations", J::u(1))
                            .set("wall_ms", J::u(crate::now_ms() - t0)));
                        use std::io::Write;
                        let _ = std::io::stdout().flush();
                        unsafe { libc::_exit(1) };
                    }
                }
            }
            inconclusive = Some(format!("{} [{}]", e, label));
        }
        // ---- d2: starts after the flip, lands in the other slot, held
        if inconclusive.is_none() {
            for v in v2.iter().take(k2) {
                crate::sig::kill_thread(v.pth, sig);
            }
            if let Err(e) = wait_until("d2 parked", || director::parked_count(1) as usize == k2, 10_000) {
                inconclusive = Some(format!("{} [{}]", e, label));
            }
        }
        let swaps_at_d2 = SWAPS.load(Ordering::SeqCst);
        if !w_done.load(Ordering::SeqCst) && bad01.is_empty() && inconclusive.is_none() {
            // still must not have returned
            std::thread::yield_now();
            if w_done.load(Ordering::SeqCst) {
                bad01.push(format!("the writer returned while d1 is still held [{}]", label));
            }
        }
        // ---- release d1; the writer must finish on its own although d2 is still held
        director::rule_off(site::D_BEFORE_ACTION);
        director::open_gate(0);
        let _ = wait_until("d1 exits", || D1_EXITS.load(Ordering::SeqCst) as usize >= k1, 10_000);
        let base = SPINS.load(Ordering::SeqCst);
        let mut stuck = false;
        if fresh.is_some() {
            // the second wave entered while the fallback's publication was waiting for d1 (the table had not been
            // swapped by then): the table's publication now has to wait for it
            if inconclusive.is_none() && bad01.is_empty() && swaps_at_d2 <= 1 {
                // ... after it has finished the fallback's, which only d1 overlapped (the second wave began after that
                // flip and sits in the other slot): bounded by the writer's own iterations like every other publication
                let tw = crate::now_ms();
                while FLIPS.load(Ordering::SeqCst) < 2 && !w_done.load(Ordering::SeqCst) && crate::now_ms() - tw < 20_000 {
                    std::thread::yield_now();
                    // the iterations are read first, the flips after: if the table has not been flipped even then, every
                    // iteration counted belongs to the fallback's barrier (in the table's barrier the writer rightly waits
                    // for the second wave, however long this thread was off the CPU meanwhile)
                    let sp = SPINS.load(Ordering::SeqCst);
                    let fl = FLIPS.load(Ordering::SeqCst);
                    if fl < 2 && sp - base > 20_000 {
                        stuck = true;
                        break;
                    }
                }
                if stuck {
                    bad18.push(format!(
                        "every delivery that overlapped the writer's publication of the fallback has returned, {} later deliveries are held in the other slot, and the writer is still waiting in that barrier after {} further iterations of its own [{}]",
                        k2, SPINS.load(Ordering::SeqCst) - base, label
                    ));
                }
                let r = if stuck { Ok(()) } else { wait_until("writer spinning in the table's barrier", || (FLIPS.load(Ordering::SeqCst) >= 2 && SPINS.load(Ordering::SeqCst) >= base + 2) || w_done.load(Ordering::SeqCst), 10_000) };
                if stuck {
                } else if w_done.load(Ordering::SeqCst) && director::parked_count(1) as usize == k2 {
                    // the held deliveries still refer to the snapshot the writer has already released: letting them go on
                    // would only crash the process, so the verdict is given here and the process ends
                    let d = format!("the writer returned while {} deliveries that began before its swap of the table are still inside their read section (paused at D_AFTER_DATA_READ) [{}]", k2, label);
                    emit_violation("C01", "writer-returned-while-reader-inside", &d);
                    emit(&J::obj()
                        .set("type", J::s("summary"))
                        .set("workload", J::s("w_live"))
                        .set("mode", J::s("gate"))
                        .set("seed", J::u(seed))
                        .set("evaluations", J::u(done_trials + 1))
                        .set("gate_trials", J::u(done_trials + 1))
                        .set("violations", J::u(1))
                        .set("wall_ms", J::u(crate::now_ms() - t0)));
                    use std::io::Write;
                    let _ = std::io::stdout().flush();
                    unsafe { libc::_exit(1) };
                } else if let Err(e) = r {
                    inconclusive = Some(format!("{} [{}]", e, label));
                }
            }
        } else {
            let tw = crate::now_ms();
            while !w_done.load(Ordering::SeqCst) {
                std::thread::yield_now();
                let extra = SPINS.load(Ordering::SeqCst) - base;
                if extra > 20_000 {
                    stuck = true;
                    break;
                }
                if crate::now_ms() - tw > 20_000 {
                    // not spinning and not done: blocked somewhere?
                    let zero = || SPINS.load(Ordering::SeqCst);
                    if crate::probe::stably_blocked_in(w_ktid.load(Ordering::SeqCst), &[202], None, 10, 10, &zero) {
                        stuck = true;
                    } else {
                        inconclusive = Some(format!("writer neither done nor spinning [{}]", label));
                    }
                    break;
                }
            }
            if stuck {
                bad18.push(format!(
                    "every delivery that overlapped the writer's publication has returned, {} later deliveries are held in the other slot, and the writer is still waiting after {} further barrier iterations of its own [{}]",
                    k2, SPINS.load(Ordering::SeqCst) - base, label
                ));
            }
            max_spins_after = max_spins_after.max(SPINS.load(Ordering::SeqCst) - base);
        }
        // ---- release d2, finish
        director::rule_off(site::D_AFTER_DATA_READ);
        director::open_gate(1);
        let _ = wait_until("writer done", || w_done.load(Ordering::SeqCst), 20_000);
        if w_done.load(Ordering::SeqCst) {
            live_id = wj.join().unwrap();
        } else {
            inconclusive = inconclusive.or(Some(format!("writer never finished [{}]", label)));
            break;
        }
        let _ = wait_until("brackets closed", || OPEN_BRACKETS.load(Ordering::SeqCst) == 0, 10_000);
        director::close_gate(0);
        director::close_gate(1);
        evlog::enable(false);
        // ---- log rule (i)
        let evs = evlog::snapshot();
        // (a first registration publishes twice - the fallback, then the table; the table's is the last one)
        let flip = evs.iter().rposition(|e| e.kind == site::HL_B_FLIP && e.tid == 30);
        if fresh.is_some() {
            keys.insert(format!("d1={} d2={} op=first-registration swaps_when_d2_parked={}", k1, k2, swaps_at_d2));
            fresh_used += 1;
            fresh_d2 += k2 as u64;
            if samples.len() < 8 {
                samples.push(J::s(&format!("{}: the table's publication waited for the second wave ({} table/fallback swaps done when it parked)", label, swaps_at_d2)));
            }
        } else if let Some(flip) = flip {
            // brackets that contain the flip stamp
            let mut open: std::collections::HashMap<u32, usize> = Default::default();
            let mut last_exit = 0usize;
            for (stamp, e) in evs.iter().enumerate() {
                if e.kind == site::DISPATCH_ENTER {
                    open.insert(e.tid, stamp);
                } else if e.kind == site::DISPATCH_EXIT {
                    if let Some(en) = open.remove(&e.tid) {
                        if en < flip && stamp > flip {
                            last_exit = last_exit.max(stamp);
                        }
                    }
                }
            }
            let done_stamp = evs.iter().rposition(|e| e.kind == site::HL_B_DONE && e.tid == 30).unwrap_or(usize::MAX);
            let spins_after = evs.iter().enumerate().filter(|(st, e)| e.kind == site::HL_B_SPIN && e.tid == 30 && *st > last_exit && *st < done_stamp).count();
            if last_exit > 0 && spins_after > 3 && !stuck {
                bad18.push(format!("the writer made {} more barrier iterations after the last overlapping delivery had exited (stamp {}) [{}]", spins_after, last_exit, label));
            }
            keys.insert(format!("d1={} d2={} op={} spins_after={}", k1, k2, if op_register { "register" } else { "unregister" }, spins_after));
            if samples.len() < 6 {
                samples.push(J::s(&format!("{}: flip at stamp {}, last overlapping exit {}, spins after it {}, writer done at {}", label, flip, last_exit, spins_after, done_stamp)));
            }
        }
        done_trials += 1;
        if !bad18.is_empty() || !bad01.is_empty() || inconclusive.is_some() {
            break;
        }
        let _ = rng.next();
    }
    stop.store(true, Ordering::SeqCst);
    director::clear_rules();
    director::open_gate(0);
    director::open_gate(1);
    if inconclusive.is_none() {
        for v in v1.into_iter().chain(v2.into_iter()) {
            let _ = v.join.join();
        }
    }
    let mut nviol = 0;
    for b in bad18.iter().take(3) {
        emit_violation("C18", if b.contains("more barrier iterations after") { "writer-spins-after-overlap-ended" } else { "writer-does-not-complete" }, b);
        nviol += 1;
    }
    for b in bad01.iter().take(3) {
        emit_violation("C01", "writer-returned-while-reader-inside", b);
        nviol += 1;
    }
    emit(&J::obj()
        .set("type", J::s("summary"))
        .set("workload", J::s("w_live"))
        .set("mode", J::s("gate"))
        .set("seed", J::u(seed))
        .set("evaluations", J::u(done_trials))
        .set("distinct_keys", J::arr(keys.iter().map(|k| J::s(k))))
        .set("samples", J::Arr(samples))
        .set("gate_trials", J::u(done_trials))
        .set("first_registrations_of_a_fresh_signal_as_writer", J::u(fresh_used))
        .set("deliveries_that_got_through_during_a_first_registration", J::u(fresh_d2))
        .set("max_writer_spins_after_d1_released", J::u(max_spins_after))
        .set("violations", J::u(nviol))
        .set("wall_ms", J::u(crate::now_ms() - t0)));
    if nviol == 0 {
        if let Some(r) = inconclusive {
            emit(&J::obj().set("type", J::s("inconclusive")).set("reason", J::s(&r)));
            return 2;
        }
    }
    if nviol > 0 { 1 } else { 0 }
}

// ------------------------------------------------------------------------------------------

struct MutState {
    ktid: AtomicI32,
    ops: AtomicU64,
    idle: AtomicBool,
    done: AtomicBool,
}

static DROP_PANICS_ARMED: AtomicBool = AtomicBool::new(true);
static DROP_PANICS: AtomicU64 = AtomicU64::new(0);
static UNEXPECTED_PANICS: AtomicU64 = AtomicU64::new(0);

/// Captured by some actions: its Drop panics (inside the library's removal call, which drops the last reference).
struct PanicOnDrop;

impl Drop for PanicOnDrop {
    fn drop(&mut self) {
        if DROP_PANICS_ARMED.load(Ordering::SeqCst) && !std::thread::panicking() {
            DROP_PANICS.fetch_add(1, Ordering::SeqCst);
            panic!("captured state panics in Drop");
        }
    }
}

/// A caught panic is expected if it is the one of `PanicOnDrop` (whichever removal call dropped the last reference).
fn note_panic(payload: Box<dyn std::any::Any + Send>) {
    let msg = payload.downcast_ref::<&str>().map(|s| s.to_string()).or_else(|| payload.downcast_ref::<String>().cloned()).unwrap_or_default();
    if !msg.contains("captured state panics in Drop") {
        UNEXPECTED_PANICS.fetch_add(1, Ordering::SeqCst);
        if let Ok(mut g) = UNEXPECTED_MSG.try_lock() {
            if g.is_empty() {
                *g = msg;
            }
        }
    }
}
static UNEXPECTED_MSG: std::sync::Mutex<String> = std::sync::Mutex::new(String::new());

/// Captured by an action: the last owner of a companion registration, which its Drop removes - a Drop that calls back
/// into the registry, as the Drop of the last iterator `Handle` does.
struct ReentersOnDrop(Option<signal_hook_registry::SigId>);

impl Drop for ReentersOnDrop {
    fn drop(&mut self) {
        if let Some(id) = self.0.take() {
            signal_hook_registry::unregister(id);
        }
    }
}

/// Removal calls whose dropped state re-enters the registry must return like any other (forked child, deadlock verdict).
fn reentrant_drop_probe() -> Option<(String, String)> {
    let res = crate::fork::probe_ex(30_000, false, true, |fd| {
        use crate::fork::wr;
        for round in 0..3 {
            let companion = unsafe { signal_hook_registry::register(libc::SIGUSR2, || ()) }.ok();
            let g = ReentersOnDrop(companion);
            let id = match unsafe { signal_hook_registry::register(libc::SIGUSR1, move || { let _ = &g; }) } {
                Ok(id) => id,
                Err(_) => return 20,
            };
            wr(fd, &format!("STEP unregister #{}\n", round));
            if !signal_hook_registry::unregister(id) {
                wr(fd, "BAD unregister returned false\n");
            }
            // the same through unregister_signal and through an iterator instance whose last handle an action owns
            let companion = unsafe { signal_hook_registry::register(libc::SIGUSR2, || ()) }.ok();
            let g = ReentersOnDrop(companion);
            let _ = unsafe { signal_hook_registry::register(libc::SIGUSR1, move || { let _ = &g; }) };
            wr(fd, &format!("STEP unregister_signal #{}\n", round));
            #[allow(deprecated)]
            signal_hook_registry::unregister_signal(libc::SIGUSR1);
            if let Ok(inst) = signal_hook::iterator::Signals::new([libc::SIGHUP]) {
                let h = inst.handle();
                drop(inst);
                // `h` is now the last owner of the instance; an action owns it
                if let Ok(id) = unsafe { signal_hook_registry::register(libc::SIGUSR1, move || { let _ = &h; }) } {
                    wr(fd, &format!("STEP unregister of an action that owns the last handle #{}\n", round));
                    signal_hook_registry::unregister(id);
                }
            }
        }
        wr(fd, "DONE\n");
        0
    });
    let last = res.out.lines().filter(|l| l.starts_with("STEP ")).last().unwrap_or("").to_string();
    match res.end {
        crate::fork::End::Exit(0) if res.out.contains("DONE") && !res.out.contains("BAD") => None,
        crate::fork::End::Deadlocked(why) => Some(("removal-deadlocks-when-dropped-state-reenters-registry".into(), format!(
            "a removal call never returns although no delivery is in flight: {} (last step: {}); what the removed action captured calls the registry from its Drop (here: removes a companion registration / is the last Handle of an iterator instance) while the removal still holds the registry's writer lock", why, last))),
        other => Some(("reentrant-drop-probe".into(), format!("probe ended {:?} after {}", other, last))),
    }
}

fn free_mode(seed: u64, rounds: u64, round_ms: u64) -> i32 {
    crate::set_thread(1, class::MAIN);
    // reported, and the free-running part below still runs (its mutators never capture such state)
    let probe_violation = match reentrant_drop_probe() {
        Some((sig, detail)) => {
            emit_violation("C18", &sig, &detail);
            1u64
        }
        None => 0,
    };
    director::install();
    director::set_observer(Some(observer));
    std::panic::set_hook(Box::new(|_| {}));
    let rt = crate::sig::rtmin();
    let shared = [libc::SIGUSR1, libc::SIGUSR2, rt + 1];
    // fresh signals for concurrent first registrations
    let fresh: Vec<i32> = (rt + 4..=64).collect();
    for s in shared.iter() {
        let id = unsafe { signal_hook_registry::register(*s, || ()) }.unwrap();
        signal_hook_registry::unregister(id);
    }
    let nmut = 5usize;
    let hold = Arc::new(AtomicBool::new(false));
    let stop = Arc::new(AtomicBool::new(false));
    let stop_k = Arc::new(AtomicBool::new(false));
    let states: Vec<Arc<MutState>> = (0..nmut).map(|_| Arc::new(MutState { ktid: AtomicI32::new(0), ops: AtomicU64::new(0), idle: AtomicBool::new(false), done: AtomicBool::new(false) })).collect();
    let fresh_next = Arc::new(AtomicU64::new(0));
    let exit_ok = Arc::new(AtomicBool::new(false));
    let panics_caught = Arc::new(AtomicU64::new(0));
    let first_regs = Arc::new(AtomicU64::new(0));
    let mut mj = Vec::new();
    for m in 0..nmut {
        let (hold, stop, st) = (hold.clone(), stop.clone(), states[m].clone());
        let fresh = fresh.clone();
        let (fresh_next, panics_caught, first_regs) = (fresh_next.clone(), panics_caught.clone(), first_regs.clone());
        let exit_ok = exit_ok.clone();
        mj.push(std::thread::spawn(move || {
            crate::set_thread(10 + m as u32, class::MUTATOR);
            director::seed_thread(seed ^ (m as u64 + 3));
            pool::add_target(1);
            st.ktid.store(crate::sig::gettid(), Ordering::SeqCst);
            let mut rng = Rng::new(seed ^ ((m as u64) << 8));
            let mut live: Vec<signal_hook_registry::SigId> = Vec::new();
            let mut inst: Option<signal_hook::iterator::Signals> = None;
            while !stop.load(Ordering::SeqCst) {
                if hold.load(Ordering::SeqCst) {
                    st.idle.store(true, Ordering::SeqCst);
                    std::thread::yield_now();
                    continue;
                }
                st.idle.store(false, Ordering::SeqCst);
                let s = *rng.pick(&shared);
                let choice = rng.below(103);
                if choice >= 100 {
                    // an action whose captured state panics when it is dropped: the removal call unwinds (a panic in a
                    // mutator); every later registry call of every thread must still work
                    let p = PanicOnDrop;
                    let reg = std::panic::catch_unwind(std::panic::AssertUnwindSafe(|| unsafe { signal_hook_registry::register(s, move || { let _ = &p; }) }));
                    match reg {
                        Ok(Ok(id)) => {
                            if let Err(p) = std::panic::catch_unwind(std::panic::AssertUnwindSafe(|| signal_hook_registry::unregister(id))) {
                                note_panic(p);
                            }
                        }
                        Ok(Err(_)) => {}
                        Err(p) => note_panic(p),
                    }
                    director::lib_exit();
                    st.ops.fetch_add(1, Ordering::SeqCst);
                    continue;
                }
                let op_result = std::panic::catch_unwind(std::panic::AssertUnwindSafe(|| match choice {
                    0..=34 => {
                        if let Ok(id) = unsafe { signal_hook_registry::register(s, || ()) } {
                            live.push(id);
                        }
                    }
                    35..=59 => {
                        if !live.is_empty() {
                            let k = rng.below(live.len() as u64) as usize;
                            signal_hook_registry::unregister(live.swap_remove(k));
                        }
                    }
                    60..=64 => {
                        #[allow(deprecated)]
                        signal_hook_registry::unregister_signal(s);
                    }
                    65..=74 => {
                        // forbidden signal: documented panic, caught; later mutators must not be wedged
                        let r = std::panic::catch_unwind(|| unsafe { signal_hook_registry::register(libc::SIGKILL, || ()) });
                        if r.is_err() {
                            panics_caught.fetch_add(1, Ordering::SeqCst);
                        }
                        if let Some(i) = inst.as_ref() {
                            let h = i.handle();
                            let r = std::panic::catch_unwind(std::panic::AssertUnwindSafe(|| h.add_signal(libc::SIGSEGV)));
                            if r.is_err() {
                                panics_caught.fetch_add(1, Ordering::SeqCst);
                            }
                        }
                    }
                    75..=79 => {
                        // first registration of a fresh signal (data lock + fallback lock), concurrently with others
                        let k = fresh_next.fetch_add(1, Ordering::SeqCst) as usize;
                        if k < fresh.len() {
                            if let Ok(id) = unsafe { signal_hook_registry::register(fresh[k], || ()) } {
                                first_regs.fetch_add(1, Ordering::SeqCst);
                                live.push(id);
                            }
                        }
                    }
                    80..=89 => match inst.as_ref() {
                        None => inst = signal_hook::iterator::Signals::new([s]).ok(),
                        Some(i) => {
                            let _ = i.handle().add_signal(*rng.pick(&shared));
                        }
                    },
                    _ => {
                        inst = None; // drop of a Signals instance
                    }
                }));
                if let Err(p) = op_result {
                    // none of these calls is documented to panic (the documented ones are caught where they are made)
                    note_panic(p);
                    let i = inst.take();
                    if let Err(p) = std::panic::catch_unwind(std::panic::AssertUnwindSafe(|| drop(i))) {
                        note_panic(p);
                    }
                }
                director::lib_exit();
                st.ops.fetch_add(1, Ordering::SeqCst);
            }
            for id in live {
                if let Err(p) = std::panic::catch_unwind(std::panic::AssertUnwindSafe(|| signal_hook_registry::unregister(id))) {
                    note_panic(p);
                }
            }
            if let Err(p) = std::panic::catch_unwind(std::panic::AssertUnwindSafe(|| drop(inst))) {
                note_panic(p);
            }
            director::flush_counts();
            st.done.store(true, Ordering::SeqCst);
            // stay a valid signal target until the killers are gone
            while !exit_ok.load(Ordering::SeqCst) {
                std::thread::yield_now();
            }
        }));
    }
    let mut vj = Vec::new();
    let stop_v = Arc::new(AtomicBool::new(false));
    for v in 0..4u32 {
        let stop_v = stop_v.clone();
        vj.push(std::thread::spawn(move || {
            crate::set_thread(30 + v, VICTIM2);
            pool::add_target(0);
            pool::victim_spin(&stop_v);
        }));
    }
    let mut kj = Vec::new();
    for k in 0..2u64 {
        let stop_k = stop_k.clone();
        let kc = KillerCfg { sigs: shared.iter().map(|s| SigSpec { sig: *s, queued: false }).collect(), gap: 200, mutator_share: 3, log_sends: false };
        kj.push(std::thread::spawn(move || {
            crate::set_thread(60 + k as u32, class::KILLER);
            pool::killer_loop(&stop_k, &kc, seed + k)
        }));
    }
    let t0 = crate::now_ms();
    let mut bad: Vec<String> = Vec::new();
    let mut inconclusive = None;
    let mut quiescent_points = 0u64;
    let mut samples = Vec::new();
    'rounds: for round in 0..rounds {
        std::thread::sleep(std::time::Duration::from_millis(round_ms));
        // ---- quiescent point: no new deliveries, mutators asked to go idle
        pool::PAUSE_KILLERS.store(true, Ordering::SeqCst);
        hold.store(true, Ordering::SeqCst);
        let tq = crate::now_ms();
        loop {
            let all_idle = states.iter().all(|s| s.idle.load(Ordering::SeqCst));
            if all_idle {
                break;
            }
            if crate::now_ms() - tq > 3_000 {
                // who is not idle, and what are they doing?
                let quiet = OPEN_BRACKETS.load(Ordering::SeqCst) == 0;
                let mut stuck = Vec::new();
                let mut undecided = false;
                for (i, s) in states.iter().enumerate() {
                    if s.idle.load(Ordering::SeqCst) {
                        continue;
                    }
                    let ops0 = s.ops.load(Ordering::SeqCst);
                    let sp0 = SPINS.load(Ordering::SeqCst);
                    let prog = || s.ops.load(Ordering::SeqCst);
                    let futex = crate::probe::stably_blocked_in(s.ktid.load(Ordering::SeqCst), &[202], None, 20, 20, &prog);
                    std::thread::sleep(std::time::Duration::from_millis(200));
                    let spinning = SPINS.load(Ordering::SeqCst) > sp0 + 1000 && s.ops.load(Ordering::SeqCst) == ops0;
                    if s.idle.load(Ordering::SeqCst) {
                        continue;
                    }
                    if futex {
                        stuck.push(format!("mutator {} blocked in futex", i));
                    } else if spinning {
                        stuck.push(format!("mutator {} spinning in the write barrier", i));
                    } else {
                        undecided = true;
                    }
                }
                if !stuck.is_empty() && quiet && !undecided && !states.iter().all(|s| s.idle.load(Ordering::SeqCst)) {
                    bad.push(format!("quiescent point {}: no delivery in flight, senders paused, yet {} (stable): registry calls do not return", round, stuck.join(", ")));
                    break 'rounds;
                }
                if crate::now_ms() - tq > 40_000 {
                    inconclusive = Some(format!("quiescent point {} not reached and no stable stuck state", round));
                    break 'rounds;
                }
            }
            std::thread::yield_now();
        }
        quiescent_points += 1;
        if samples.len() < 4 {
            samples.push(J::s(&format!("quiescent point {}: ops per mutator {:?}", round, states.iter().map(|s| s.ops.load(Ordering::SeqCst)).collect::<Vec<_>>())));
        }
        hold.store(false, Ordering::SeqCst);
        pool::PAUSE_KILLERS.store(false, Ordering::SeqCst);
    }
    if !bad.is_empty() || inconclusive.is_some() {
        // cannot join wedged threads
        for b in bad.iter() {
            emit_violation("C18", "mutators-wedged-at-quiescent-point", b);
        }
        emit(&J::obj().set("type", J::s("summary")).set("workload", J::s("w_live")).set("mode", J::s("free")).set("evaluations", J::u(quiescent_points)).set("violations", J::u(bad.len() as u64)));
        if bad.is_empty() {
            emit(&J::obj().set("type", J::s("inconclusive")).set("reason", J::s(&inconclusive.unwrap())));
            unsafe { libc::_exit(2) };
        }
        unsafe { libc::_exit(1) };
    }
    stop.store(true, Ordering::SeqCst);
    hold.store(false, Ordering::SeqCst);
    pool::PAUSE_KILLERS.store(true, Ordering::SeqCst);
    let tj = crate::now_ms();
    while !states.iter().all(|s| s.done.load(Ordering::SeqCst)) {
        std::thread::yield_now();
        if crate::now_ms() - tj > 30_000 {
            emit(&J::obj().set("type", J::s("inconclusive")).set("reason", J::s("mutators did not finish at the end")));
            unsafe { libc::_exit(2) };
        }
    }
    stop_k.store(true, Ordering::SeqCst);
    pool::PAUSE_KILLERS.store(false, Ordering::SeqCst);
    let mut sent = 0;
    for j in kj {
        sent += j.join().unwrap().1;
    }
    exit_ok.store(true, Ordering::SeqCst);
    for j in mj {
        let _ = j.join();
    }
    stop_v.store(true, Ordering::SeqCst);
    for j in vj {
        let _ = j.join();
    }
    let total_ops: u64 = states.iter().map(|s| s.ops.load(Ordering::SeqCst)).sum();
    DROP_PANICS_ARMED.store(false, Ordering::SeqCst);
    let unexpected = UNEXPECTED_PANICS.load(Ordering::SeqCst);
    if unexpected > 0 {
        emit_violation("C18", "registry-call-panics-after-a-mutator-panicked", &format!(
            "{} registry / iterator calls that are not documented to panic did panic ({} removals had unwound before because the removed action's captured state panics in Drop, {} documented forbidden-signal panics): a panic in one mutator wedges later ones; first message: {:?}",
            unexpected, DROP_PANICS.load(Ordering::SeqCst), panics_caught.load(Ordering::SeqCst), UNEXPECTED_MSG.lock().map(|g| g.clone()).unwrap_or_default()));
    }
    emit(&J::obj()
        .set("type", J::s("summary"))
        .set("workload", J::s("w_live"))
        .set("mode", J::s("free"))
        .set("removals_unwound_by_a_panicking_drop", J::u(DROP_PANICS.load(Ordering::SeqCst)))
        .set("seed", J::u(seed))
        .set("evaluations", J::u(quiescent_points))
        .set("distinct_keys", J::arr((0..quiescent_points.min(500)).map(|q| J::s(&format!("q{}", q)))))
        .set("samples", J::Arr(samples))
        .set("quiescent_points", J::u(quiescent_points))
        .set("mutator_ops", J::u(total_ops))
        .set("forbidden_panics_caught", J::u(panics_caught.load(Ordering::SeqCst)))
        .set("concurrent_first_registrations", J::u(first_regs.load(Ordering::SeqCst)))
        .set("signals_sent", J::u(sent))
        .set("barrier_spins", J::u(SPINS.load(Ordering::SeqCst)))
        .set("reentrant_drop_probe_violations", J::u(probe_violation))
        .set("violations", J::u((unexpected > 0) as u64 + probe_violation))
        .set("wall_ms", J::u(crate::now_ms() - t0)));
    if unexpected > 0 || probe_violation > 0 { 1 } else { 0 }
}

pub fn main(args: &[String]) -> i32 {
    let seed = arg_u64(args, "--seed", 1);
    match arg_str(args, "--mode", "gate") {
        "gate" => gate_mode(seed, arg_u64(args, "--trials", 48)),
        _ => free_mode(seed, arg_u64(args, "--rounds", 20), arg_u64(args, "--round-ms", 50)),
    }
}
