//! Common monitoring infrastructure for the signal-hook verification workloads.
//!
//! Everything that can run inside a signal handler (hook, log, canaries, counters) uses only
//! atomics and const-initialised thread-locals: no allocation, no locks.
#![allow(clippy::missing_safety_doc)]

pub mod director;
pub mod evlog;
pub mod fork;
pub mod istep;
pub mod jsonw;
pub mod p_channel;
pub mod p_halflock;
pub mod p_kernel;
pub mod pool;
pub mod probe;
pub mod rng;
pub mod sig;
pub mod w_chain;
pub mod w_channel;
pub mod w_close;
pub mod w_default;
pub mod w_flag;
pub mod w_forbid;
pub mod w_freeze;
pub mod w_halflock;
pub mod w_instance;
pub mod w_live;
pub mod w_model;
pub mod w_origin;
pub mod w_pipe;
pub mod w_iter;
pub mod w_reg;
pub mod w_step;
pub mod w_strace;

pub use signal_hook_registry::verif::site;

use std::alloc::{GlobalAlloc, Layout, System};
use std::cell::Cell;
use std::sync::atomic::{AtomicBool, AtomicU64, AtomicUsize, Ordering};

thread_local! {
    /// Harness thread index (0 = not a harness thread).
    pub static TID: Cell<u32> = const { Cell::new(0) };
    /// Thread class bit mask (see `class`).
    pub static CLASS: Cell<u32> = const { Cell::new(0) };
    /// How many library dispatchers are active on this thread (nested deliveries).
    pub static DEPTH: Cell<u32> = const { Cell::new(0) };
    /// How many harness-level signal handlers / actions are active on this thread.
    pub static ACT_DEPTH: Cell<u32> = const { Cell::new(0) };
}

pub mod class {
    pub const VICTIM: u32 = 1;
    pub const MUTATOR: u32 = 2;
    pub const CONSUMER: u32 = 4;
    pub const KILLER: u32 = 8;
    pub const PRODUCER: u32 = 16;
    pub const MAIN: u32 = 32;
    pub const ANY: u32 = !0;
}

#[allow(clippy::declare_interior_mutable_const)]
const PTH0: AtomicUsize = AtomicUsize::new(0);
/// pthread_t of the harness threads by harness thread id (for the thread CPU clock).
pub static THREAD_PTH: [AtomicUsize; 64] = [PTH0; 64];

pub fn set_thread(tid: u32, class: u32) {
    TID.with(|t| t.set(tid));
    CLASS.with(|c| c.set(class));
    if (tid as usize) < 64 {
        THREAD_PTH[tid as usize].store(unsafe { libc::pthread_self() } as usize, Ordering::SeqCst);
    }
}

#[inline]
pub fn tid() -> u32 {
    TID.with(|t| t.get())
}

#[inline]
pub fn depth() -> u32 {
    DEPTH.with(|d| d.get())
}

// -------------------------------------------------------------------------------------------
// Violations: a small lock-free table of (code, a, b) the first few of each kind, usable from
// handlers. Workloads turn them into report lines at quiescence.

pub const MAX_VIOL: usize = 64;
pub struct ViolSlot {
    pub code: AtomicUsize,
    pub a: AtomicUsize,
    pub b: AtomicUsize,
    pub c: AtomicUsize,
}
#[allow(clippy::declare_interior_mutable_const)]
const VS: ViolSlot = ViolSlot {
    code: AtomicUsize::new(0),
    a: AtomicUsize::new(0),
    b: AtomicUsize::new(0),
    c: AtomicUsize::new(0),
};
pub static VIOLS: [ViolSlot; MAX_VIOL] = [VS; MAX_VIOL];
pub static VIOL_NEXT: AtomicUsize = AtomicUsize::new(0);
pub static VIOL_TOTAL: AtomicU64 = AtomicU64::new(0);

/// Records a violation (async-signal-safe).
pub fn violation(code: usize, a: usize, b: usize, c: usize) {
    VIOL_TOTAL.fetch_add(1, Ordering::SeqCst);
    let i = VIOL_NEXT.fetch_add(1, Ordering::SeqCst);
    if i < MAX_VIOL {
        VIOLS[i].a.store(a, Ordering::SeqCst);
        VIOLS[i].b.store(b, Ordering::SeqCst);
        VIOLS[i].c.store(c, Ordering::SeqCst);
        VIOLS[i].code.store(code, Ordering::SeqCst);
    }
}

pub fn violations() -> Vec<(usize, usize, usize, usize)> {
    let n = VIOL_NEXT.load(Ordering::SeqCst).min(MAX_VIOL);
    (0..n)
        .map(|i| {
            (
                VIOLS[i].code.load(Ordering::SeqCst),
                VIOLS[i].a.load(Ordering::SeqCst),
                VIOLS[i].b.load(Ordering::SeqCst),
                VIOLS[i].c.load(Ordering::SeqCst),
            )
        })
        .collect()
}

// -------------------------------------------------------------------------------------------
// Counting allocator: counts heap operations made while a library dispatcher (or a harness
// action) is active on the calling thread.

pub struct CountingAlloc;

pub static ALLOC_IN_HANDLER: AtomicU64 = AtomicU64::new(0);
pub static FREE_IN_HANDLER: AtomicU64 = AtomicU64::new(0);
pub static ALLOC_TOTAL: AtomicU64 = AtomicU64::new(0);
/// Bytes currently allocated through the global allocator (for leak checks over a sequence of calls).
pub static LIVE_BYTES: std::sync::atomic::AtomicI64 = std::sync::atomic::AtomicI64::new(0);
/// When set, heap operations made at dispatch depth > 0 are counted.
pub static ALLOC_WATCH: AtomicBool = AtomicBool::new(false);
// Set by a thread that deliberately allocates inside a handler-like context (never by library code).
thread_local! {
    pub static ALLOC_EXEMPT: Cell<u32> = const { Cell::new(0) };
}

#[inline]
fn in_handler() -> bool {
    ALLOC_WATCH.load(Ordering::Relaxed)
        && DEPTH.with(|d| d.get()) > 0
        && ALLOC_EXEMPT.with(|e| e.get()) == 0
}

unsafe impl GlobalAlloc for CountingAlloc {
    unsafe fn alloc(&self, l: Layout) -> *mut u8 {
        if in_handler() {
            ALLOC_IN_HANDLER.fetch_add(1, Ordering::Relaxed);
        }
        LIVE_BYTES.fetch_add(l.size() as i64, Ordering::Relaxed);
        System.alloc(l)
    }
    unsafe fn dealloc(&self, p: *mut u8, l: Layout) {
        if in_handler() {
            FREE_IN_HANDLER.fetch_add(1, Ordering::Relaxed);
        }
        LIVE_BYTES.fetch_sub(l.size() as i64, Ordering::Relaxed);
        System.dealloc(p, l)
    }
    unsafe fn alloc_zeroed(&self, l: Layout) -> *mut u8 {
        if in_handler() {
            ALLOC_IN_HANDLER.fetch_add(1, Ordering::Relaxed);
        }
        LIVE_BYTES.fetch_add(l.size() as i64, Ordering::Relaxed);
        System.alloc_zeroed(l)
    }
    unsafe fn realloc(&self, p: *mut u8, l: Layout, n: usize) -> *mut u8 {
        if in_handler() {
            ALLOC_IN_HANDLER.fetch_add(1, Ordering::Relaxed);
        }
        LIVE_BYTES.fetch_add(n as i64 - l.size() as i64, Ordering::Relaxed);
        System.realloc(p, l, n)
    }
}

// -------------------------------------------------------------------------------------------
// Small helpers

pub fn arg_u64(args: &[String], name: &str, default: u64) -> u64 {
    let mut i = 0;
    while i + 1 < args.len() {
        if args[i] == name {
            return args[i + 1].parse().unwrap_or(default);
        }
        i += 1;
    }
    default
}

pub fn arg_str<'a>(args: &'a [String], name: &str, default: &'a str) -> &'a str {
    let mut i = 0;
    while i + 1 < args.len() {
        if args[i] == name {
            return &args[i + 1];
        }
        i += 1;
    }
    default
}

pub fn has_flag(args: &[String], name: &str) -> bool {
    args.iter().any(|a| a == name)
}

/// Monotonic milliseconds (for watchdogs and budgets only, never for verdicts).
pub fn now_ms() -> u64 {
    let mut ts: libc::timespec = unsafe { std::mem::zeroed() };
    unsafe { libc::clock_gettime(libc::CLOCK_MONOTONIC, &mut ts) };
    ts.tv_sec as u64 * 1000 + ts.tv_nsec as u64 / 1_000_000
}
