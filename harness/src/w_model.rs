//! w_model: the registry against a reference model (C05): per-signal ordered multisets with
//! unique ids; random sequential histories in a forked child per seed (first registrations
//! happen once per process); the kernel is the oracle for the disposition and for restart
//! behaviour.

use std::collections::{HashMap, HashSet};
use std::sync::atomic::{AtomicUsize, Ordering};

use libc::c_int;
use signal_hook_registry::SigId;

use crate::fork::{self, End};
use crate::jsonw::{emit, emit_violation, J};
use crate::rng::Rng;
use crate::arg_u64;

const RUNLOG_N: usize = 4096;
#[allow(clippy::declare_interior_mutable_const)]
const A0: AtomicUsize = AtomicUsize::new(0);
#[allow(clippy::declare_interior_mutable_const)]
const ROW: [AtomicUsize; RUNLOG_N] = [A0; RUNLOG_N];
static RUNLOGS: [[AtomicUsize; RUNLOG_N]; 4] = [ROW; 4];
static RUNLOG_LENS: [AtomicUsize; 4] = [A0; 4];
thread_local! {
    static OWNER: std::cell::Cell<usize> = const { std::cell::Cell::new(0) };
}
static WRONG_SIGNO: AtomicUsize = AtomicUsize::new(0);

/// Actions log into the run list of the thread they run on (deliveries are raised on the owner thread).
fn ran(tag: usize) {
    let o = OWNER.with(|o| o.get());
    let i = RUNLOG_LENS[o].fetch_add(1, Ordering::SeqCst);
    if i < RUNLOG_N {
        RUNLOGS[o][i].store(tag, Ordering::SeqCst);
    }
}

fn take_runlog() -> Vec<usize> {
    let o = OWNER.with(|o| o.get());
    let n = RUNLOG_LENS[o].swap(0, Ordering::SeqCst).min(RUNLOG_N);
    (0..n).map(|i| RUNLOGS[o][i].load(Ordering::SeqCst)).collect()
}

fn runlog_len() -> usize {
    RUNLOG_LENS[OWNER.with(|o| o.get())].load(Ordering::SeqCst)
}

fn catchable() -> Vec<c_int> {
    (1..=64).filter(|s| !signal_hook_registry::FORBIDDEN.contains(s) && *s != 32 && *s != 33).collect()
}

/// Captured by a few of the registered actions: its Drop panics, so the removal call that drops the last reference unwinds.
/// The registry must be exactly what the model says afterwards, like after any other removal.
struct DropPanics;
static DROP_PANICS_ON: std::sync::atomic::AtomicBool = std::sync::atomic::AtomicBool::new(true);

impl Drop for DropPanics {
    fn drop(&mut self) {
        if DROP_PANICS_ON.load(Ordering::SeqCst) && !std::thread::panicking() {
            panic!("captured state panics in Drop");
        }
    }
}

/// A removal call; `Err(())` if it unwound with the panic of `DropPanics` (the removal itself has happened).
fn removal<R>(f: impl FnOnce() -> R) -> Result<R, ()> {
    match std::panic::catch_unwind(std::panic::AssertUnwindSafe(f)) {
        Ok(r) => Ok(r),
        Err(p) => {
            let msg = p.downcast_ref::<&str>().map(|s| s.to_string()).or_else(|| p.downcast_ref::<String>().cloned()).unwrap_or_default();
            if msg.contains("captured state panics in Drop") {
                Err(())
            } else {
                std::panic::resume_unwind(p)
            }
        }
    }
}

fn child(seed: u64, ops: u64, fd: i32) -> i32 {
    use fork::wr;
    std::panic::set_hook(Box::new(|_| {}));
    unsafe {
        // the Rust runtime's SIGBUS handler must not be chained (it resets the disposition when it
        // sees a SIGBUS that is not a stack overflow)
        libc::signal(libc::SIGBUS, libc::SIG_DFL);
    }
    let mut rng = Rng::new(seed);
    let all = catchable();
    // few signals most of the time, all of them sometimes
    let hot: Vec<c_int> = (0..4).map(|_| *rng.pick(&all)).collect();
    let mut model: HashMap<c_int, Vec<(SigId, usize)>> = HashMap::new();
    let mut taken: HashSet<c_int> = HashSet::new();
    let mut ever: HashSet<SigId> = HashSet::new();
    let mut removed: Vec<SigId> = Vec::new();
    let mut next_tag = 1usize;
    let dispatcher = signal_hook_registry::verif::dispatcher_addr();
    let bad = std::cell::Cell::new(0u32);
    let mut n_reg = 0u64;
    let mut n_unreg = [0u64; 3];
    let mut n_clear = 0u64;
    let mut n_deliver = 0u64;
    let mut max_len = 0usize;
    let report = |m: String| {
        if bad.get() < 6 {
            wr(fd, &format!("BAD {}\n", m));
        }
        bad.set(bad.get() + 1);
    };
    let check_delivery = |sig: c_int, model: &HashMap<c_int, Vec<(SigId, usize)>>, report: &dyn Fn(String)| {
        take_runlog();
        unsafe { libc::raise(sig) };
        let got = take_runlog();
        let want: Vec<usize> = model.get(&sig).map(|v| v.iter().map(|x| x.1).collect()).unwrap_or_default();
        if got != want {
            report(format!("delivery of signal {} ran actions {:?}, the model says {:?}", sig, got, want));
        }
    };
    for i in 0..ops {
        let sig = if rng.chance(7, 8) { *rng.pick(&hot) } else { *rng.pick(&all) };
        let r = rng.below(100);
        let mut touched = sig;
        if r < 40 {
            // ---- register / register_sigaction
            let tag = next_tag;
            next_tag += 1;
            let res = if rng.chance(1, 24) {
                let p = DropPanics;
                unsafe {
                    signal_hook_registry::register(sig, move || {
                        let _ = &p;
                        ran(tag)
                    })
                }
            } else if rng.chance(1, 2) {
                unsafe { signal_hook_registry::register(sig, move || ran(tag)) }
            } else {
                unsafe {
                    signal_hook_registry::register_sigaction(sig, move |info| {
                        if info.si_signo != sig {
                            WRONG_SIGNO.fetch_add(1, Ordering::SeqCst);
                        }
                        ran(tag)
                    })
                }
            };
            match res {
                Ok(id) => {
                    if !ever.insert(id) {
                        report(format!("op {}: register({}) returned an id that had been handed out before", i, sig));
                    }
                    model.entry(sig).or_default().push((id, tag));
                    taken.insert(sig);
                    n_reg += 1;
                    max_len = max_len.max(model[&sig].len());
                }
                Err(e) => report(format!("op {}: register({}) failed: {}", i, sig, e)),
            }
        } else if r < 62 {
            // ---- unregister a live id (oldest / newest / middle)
            if let Some(v) = model.get_mut(&sig) {
                if !v.is_empty() {
                    let k = match rng.below(3) {
                        0 => 0,
                        1 => v.len() - 1,
                        _ => rng.below(v.len() as u64) as usize,
                    };
                    let (id, _) = v.remove(k);
                    if removal(|| signal_hook_registry::unregister(id)) == Ok(false) {
                        report(format!("op {}: unregister of a live action of signal {} returned false", i, sig));
                    }
                    removed.push(id);
                    n_unreg[0] += 1;
                }
            }
        } else if r < 70 {
            // ---- stale id
            if !removed.is_empty() {
                let id = removed[rng.below(removed.len() as u64) as usize];
                if signal_hook_registry::unregister(id) {
                    report(format!("op {}: unregister of an already removed id returned true", i));
                }
                n_unreg[1] += 1;
            }
        } else if r < 76 {
            // ---- an id that belongs to another signal: removes exactly that action
            let others: Vec<c_int> = model.iter().filter(|(s, v)| **s != sig && !v.is_empty()).map(|(s, _)| *s).collect();
            if !others.is_empty() {
                let o = *rng.pick(&others);
                let v = model.get_mut(&o).unwrap();
                let k = rng.below(v.len() as u64) as usize;
                let (id, _) = v.remove(k);
                if removal(|| signal_hook_registry::unregister(id)) == Ok(false) {
                    report(format!("op {}: unregister of a live action of signal {} returned false", i, o));
                }
                removed.push(id);
                touched = o;
                n_unreg[2] += 1;
            }
        } else if r < 82 {
            // ---- unregister_signal
            let had = model.get(&sig).map(|v| !v.is_empty()).unwrap_or(false);
            #[allow(deprecated)]
            let res = removal(|| signal_hook_registry::unregister_signal(sig)).unwrap_or(had);
            if res != had {
                report(format!("op {}: unregister_signal({}) returned {}, the model has {} actions", i, sig, res, model.get(&sig).map(|v| v.len()).unwrap_or(0)));
            }
            if let Some(v) = model.get_mut(&sig) {
                for (id, _) in v.drain(..) {
                    removed.push(id);
                }
            }
            n_clear += 1;
        }
        // ---- deliver: the touched signal after every op, everything the library owns every 64 ops
        if taken.contains(&touched) {
            check_delivery(touched, &model, &report);
            n_deliver += 1;
        }
        if taken.contains(&sig) && sig != touched {
            check_delivery(sig, &model, &report);
            n_deliver += 1;
        }
        if i % 64 == 63 {
            for s in taken.iter() {
                check_delivery(*s, &model, &report);
                n_deliver += 1;
                match crate::sig::disposition(*s) {
                    Some((h, fl)) => {
                        if h != dispatcher || fl & libc::SA_RESTART == 0 || fl & libc::SA_SIGINFO == 0 {
                            report(format!("op {}: disposition of taken-over signal {} is handler {:#x} flags {:#x} (dispatcher is {:#x})", i, s, h, fl, dispatcher));
                        }
                    }
                    None => report(format!("sigaction query failed for {}", s)),
                }
            }
        }
        if removed.len() > 256 {
            removed.drain(..128);
        }
        if bad.get() > 0 {
            break;
        }
    }
    if WRONG_SIGNO.load(Ordering::SeqCst) > 0 {
        report("an action registered for one signal ran for another (si_signo mismatch)".to_string());
    }
    // ---- restart: a thread blocked in read gets a handled signal; the read must not fail with EINTR
    let rsig = *taken.iter().next().unwrap_or(&libc::SIGUSR1);
    if taken.contains(&rsig) {
        let mut p = [0; 2];
        unsafe { libc::pipe(p.as_mut_ptr()) };
        let ktid = std::sync::Arc::new(std::sync::atomic::AtomicI32::new(0));
        let pth = std::sync::Arc::new(AtomicUsize::new(0));
        let (k2, p2, rfd) = (ktid.clone(), pth.clone(), p[0]);
        let j = std::thread::spawn(move || {
            OWNER.with(|o| o.set(1));
            p2.store(unsafe { libc::pthread_self() } as usize, Ordering::SeqCst);
            k2.store(crate::sig::gettid(), Ordering::SeqCst);
            crate::pool::victim_read(rfd)
        });
        while ktid.load(Ordering::SeqCst) == 0 {
            std::thread::yield_now();
        }
        let zero = || 0u64;
        let t0 = crate::now_ms();
        while !crate::probe::stably_blocked_in(ktid.load(Ordering::SeqCst), &[0], Some(p[0] as u64), 3, 2, &zero) {
            if crate::now_ms() - t0 > 10_000 {
                wr(fd, "INCONCLUSIVE reader thread never blocked\n");
                break;
            }
        }
        take_runlog();
        let want = model.get(&rsig).map(|v| v.len()).unwrap_or(0);
        crate::sig::kill_thread(pth.load(Ordering::SeqCst) as libc::pthread_t, rsig);
        let t1 = crate::now_ms();
        while RUNLOG_LENS[1].load(Ordering::SeqCst) + runlog_len() < want && crate::now_ms() - t1 < 5000 {
            std::thread::yield_now();
        }
        std::thread::sleep(std::time::Duration::from_millis(5));
        unsafe { libc::write(p[1], b"x".as_ptr() as *const _, 1) };
        let (n, e) = j.join().unwrap();
        if n != 1 {
            report(format!("a blocking read interrupted by handled signal {} returned {} (errno {}) instead of being restarted", rsig, n, e));
        }
    }
    wr(fd, &format!("STATS reg={} unreg_live={} unreg_stale={} unreg_other={} clear={} deliver={} signals={} maxlen={}\n", n_reg, n_unreg[0], n_unreg[1], n_unreg[2], n_clear, n_deliver, taken.len(), max_len));
    wr(fd, "DONE\n");
    0
}

/// Concurrent variant: `nthreads` owner threads, each with its own disjoint set of signals and its own model.
/// What one thread does to its signals must never change what another thread's signals do.
fn child_concurrent(seed: u64, ops: u64, nthreads: usize, fd: i32) -> i32 {
    use fork::wr;
    unsafe { libc::signal(libc::SIGBUS, libc::SIG_DFL) };
    // Job-control signals are left out here: generating SIGCONT makes the kernel discard every pending stop signal
    // (TSTP/TTIN/TTOU) of the whole process and vice versa, whatever their handlers are, so with several threads raising
    // them concurrently a raised signal can legitimately vanish before it is delivered.
    let all: Vec<c_int> = catchable().into_iter().filter(|s| ![libc::SIGCONT, libc::SIGTSTP, libc::SIGTTIN, libc::SIGTTOU].contains(s)).collect();
    let mut joins = Vec::new();
    for t in 0..nthreads {
        let mine: Vec<c_int> = all.iter().cloned().filter(|s| (*s as usize) % nthreads == t).collect();
        joins.push(std::thread::spawn(move || {
            OWNER.with(|o| o.set(t));
            let mut rng = Rng::new(seed ^ ((t as u64 + 1) << 32));
            let hot: Vec<c_int> = (0..2).map(|_| *rng.pick(&mine)).collect();
            let mut model: HashMap<c_int, Vec<(SigId, usize)>> = HashMap::new();
            let mut ever: HashSet<SigId> = HashSet::new();
            let mut problems: Vec<String> = Vec::new();
            let mut next_tag = 1usize + t * 10_000_000;
            for i in 0..ops {
                let sig = if rng.chance(9, 10) { *rng.pick(&hot) } else { *rng.pick(&mine) };
                let r = rng.below(100);
                if r < 45 {
                    let tag = next_tag;
                    next_tag += 1;
                    match unsafe { signal_hook_registry::register(sig, move || ran(tag)) } {
                        Ok(id) => {
                            if !ever.insert(id) {
                                problems.push(format!("thread {} op {}: id handed out twice", t, i));
                            }
                            model.entry(sig).or_default().push((id, tag));
                        }
                        Err(e) => problems.push(format!("register({}) failed: {}", sig, e)),
                    }
                } else if r < 80 {
                    if let Some(v) = model.get_mut(&sig) {
                        if !v.is_empty() {
                            let k = rng.below(v.len() as u64) as usize;
                            let (id, _) = v.remove(k);
                            if !signal_hook_registry::unregister(id) {
                                problems.push(format!("thread {} op {}: unregister of a live action of its own signal {} returned false (another thread only touches other signals)", t, i, sig));
                            }
                        }
                    }
                } else if r < 85 {
                    #[allow(deprecated)]
                    signal_hook_registry::unregister_signal(sig);
                    model.remove(&sig);
                }
                if model.contains_key(&sig) || r >= 80 {
                    if crate::sig::disposition(sig).map(|d| d.0 > 1).unwrap_or(false) {
                        take_runlog();
                        unsafe { libc::raise(sig) };
                        let got = take_runlog();
                        let want: Vec<usize> = model.get(&sig).map(|v| v.iter().map(|x| x.1).collect()).unwrap_or_default();
                        if got != want {
                            problems.push(format!("thread {} op {}: delivery of its own signal {} ran {:?}, its model says {:?} (other threads only touch other signals)", t, i, sig, got, want));
                        }
                    }
                }
                if !problems.is_empty() {
                    break;
                }
            }
            problems
        }));
    }
    let mut nbad = 0;
    for j in joins {
        match j.join() {
            Ok(p) => {
                for m in p.iter().take(3) {
                    wr(fd, &format!("BAD {}\n", m));
                    nbad += 1;
                }
            }
            Err(_) => {
                wr(fd, "BAD a model thread panicked\n");
                nbad += 1;
            }
        }
    }
    let _ = nbad;
    wr(fd, &format!("STATS reg={} unreg_live=0 unreg_stale=0 unreg_other=0 clear=0 deliver={} signals={} maxlen=0\n", ops * nthreads as u64 / 2, ops * nthreads as u64 / 2, all.len()));
    wr(fd, "DONE\n");
    0
}

/// Fresh process: removal calls may be the very first registry calls; they report "nothing removed".
fn child_fresh(fd: i32) -> i32 {
    use fork::wr;
    #[allow(deprecated)]
    let a = signal_hook_registry::unregister_signal(libc::SIGUSR1);
    #[allow(deprecated)]
    let b = signal_hook_registry::unregister_signal(libc::SIGUSR2);
    if a || b {
        wr(fd, "BAD unregister_signal in a fresh process (nothing registered yet) returned true\n");
    }
    // and the registry works afterwards
    match unsafe { signal_hook_registry::register(libc::SIGUSR1, || ran(7)) } {
        Ok(id) => {
            take_runlog();
            unsafe { libc::raise(libc::SIGUSR1) };
            if take_runlog() != vec![7] {
                wr(fd, "BAD after unregister_signal on an empty registry a registered action did not run once\n");
            }
            if !signal_hook_registry::unregister(id) || signal_hook_registry::unregister(id) {
                wr(fd, "BAD unregister result wrong after a fresh-process unregister_signal\n");
            }
        }
        Err(e) => wr(fd, &format!("BAD register failed: {}\n", e)),
    }
    wr(fd, "STATS reg=1 unreg_live=1 unreg_stale=1 unreg_other=0 clear=2 deliver=1 signals=1 maxlen=1\n");
    wr(fd, "DONE\n");
    0
}

extern "C" fn odd_prev(_sig: c_int) {}

/// Start state: a foreign handler installed with unusual flags (one-shot, no-defer). After the library took the signal
/// over its handler must stay the disposition, with restart and siginfo, across deliveries.
fn child_odd_flags(fd: i32) -> i32 {
    use fork::wr;
    let dispatcher = signal_hook_registry::verif::dispatcher_addr();
    let cases: [(c_int, c_int); 4] = [
        (libc::SIGUSR1, libc::SA_RESETHAND),
        (libc::SIGUSR2, libc::SA_RESETHAND | libc::SA_NODEFER),
        (libc::SIGHUP, libc::SA_NODEFER),
        (libc::SIGWINCH, libc::SA_RESETHAND | libc::SA_RESTART),
    ];
    let mut delivered = 0;
    let mut first_ids: Vec<Option<SigId>> = Vec::new();
    for (i, (sig, flags)) in cases.iter().enumerate() {
        unsafe { crate::sig::install_raw(*sig, odd_prev as usize, *flags) };
        let tag = 100 + i;
        match unsafe { signal_hook_registry::register(*sig, move || ran(tag)) } {
            Ok(id) => first_ids.push(Some(id)),
            Err(e) => {
                wr(fd, &format!("BAD register({}) failed: {}\n", sig, e));
                first_ids.push(None);
                continue;
            }
        }
        for round in 0..3 {
            take_runlog();
            unsafe { libc::raise(*sig) };
            delivered += 1;
            let got = take_runlog();
            if got != vec![tag] {
                wr(fd, &format!("BAD delivery #{} of signal {} (previous handler had flags {:#x}) ran actions {:?}, the model says [{}]\n", round + 1, sig, flags, got, tag));
                break;
            }
            match crate::sig::disposition(*sig) {
                Some((h, f)) if h == dispatcher && f & libc::SA_RESTART != 0 && f & libc::SA_SIGINFO != 0 => {}
                other => {
                    wr(fd, &format!("BAD after delivery #{} the disposition of taken-over signal {} is {:x?} (dispatcher is {:#x}; previous handler had flags {:#x})\n", round + 1, sig, other, dispatcher, flags));
                    break;
                }
            }
        }
    }
    // the last action is removed and another one registered: the library's handler is still the disposition (not the
    // foreign one again) and the new action is delivered
    for (i, (sig, flags)) in cases.iter().enumerate() {
        // by id for two of the signals, by signal for the other two
        match first_ids.get(i).cloned().flatten() {
            Some(id) if i % 2 == 0 => {
                signal_hook_registry::unregister(id);
            }
            _ => {
                #[allow(deprecated)]
                signal_hook_registry::unregister_signal(*sig);
            }
        }
        match crate::sig::disposition(*sig) {
            Some((h, _)) if h == dispatcher => {}
            other => wr(fd, &format!("BAD after the last action of taken-over signal {} was removed its disposition is {:x?} (dispatcher is {:#x}; previous handler had flags {:#x})\n", sig, other, dispatcher, flags)),
        }
        let tag = 200 + i;
        if unsafe { signal_hook_registry::register(*sig, move || ran(tag)) }.is_err() {
            wr(fd, &format!("BAD register({}) failed\n", sig));
        }
        take_runlog();
        unsafe { libc::raise(*sig) };
        delivered += 1;
        let got = take_runlog();
        if got != vec![tag] {
            wr(fd, &format!("BAD delivery of signal {} after its last action had been removed and a new one registered ran actions {:?}, the model says [{}]\n", sig, got, tag));
        }
    }
    wr(fd, &format!("STATS reg=8 unreg_live=0 unreg_stale=0 unreg_other=0 clear=4 deliver={} signals=4 maxlen=1\n", delivered));
    wr(fd, "DONE\n");
    0
}

/// Several threads register on ONE signal at the same time while the main thread keeps delivering it. Registrations only
/// append: the action list of each delivery is a prefix of the next one's, each thread's own actions appear in its program
/// order, and the last delivery has them all.
fn child_append(seed: u64, rounds: u64, fd: i32) -> i32 {
    use fork::wr;
    use crate::director::{self, mode, RuleSpec};
    director::install();
    crate::set_thread(1, crate::class::MAIN);
    let mut rng = Rng::new(seed);
    let sig = libc::SIGUSR1;
    let _keep = unsafe { signal_hook_registry::register(libc::SIGUSR2, || ()) };
    // the signal is taken over (and has one permanent action) before anything is raised
    let _first = unsafe { signal_hook_registry::register(sig, || ran(0xff_ff00)) };
    let (nthreads, per) = (4usize, 6usize);
    let mut deliveries = 0u64;
    let mut regs = 0u64;
    let mut bad = 0;
    'rounds: for round in 0..rounds {
        director::clear_rules();
        for st in [crate::site::REG_CLONED, crate::site::REG_BEFORE_PUBLISH, crate::site::HL_W_LOCKED, crate::site::REG_DONE] {
            director::set_rule(st, RuleSpec { mode: mode::DELAY, p: 30000, max: 1 + rng.below(3000) as u32, class_mask: crate::class::MUTATOR, ..Default::default() });
        }
        let go = std::sync::Arc::new(std::sync::atomic::AtomicBool::new(false));
        let done = std::sync::Arc::new(AtomicUsize::new(0));
        let mut js = Vec::new();
        for t in 0..nthreads {
            let (go, done) = (go.clone(), done.clone());
            js.push(std::thread::spawn(move || {
                crate::set_thread(10 + t as u32, crate::class::MUTATOR);
                director::seed_thread(round * 8 + t as u64 + 1);
                while !go.load(Ordering::SeqCst) {
                    std::hint::spin_loop();
                }
                let mut ids = Vec::new();
                for i in 0..per {
                    let tag = ((round as usize & 0xff) << 16) | ((t + 1) << 8) | i;
                    if let Ok(id) = unsafe { signal_hook_registry::register(sig, move || ran(tag)) } {
                        ids.push(id);
                    }
                }
                done.fetch_add(1, Ordering::SeqCst);
                ids
            }));
        }
        take_runlog();
        go.store(true, Ordering::SeqCst);
        let mut prev: Vec<usize> = Vec::new();
        let mut finished_seen = false;
        loop {
            let all_done = done.load(Ordering::SeqCst) == nthreads;
            unsafe { libc::raise(sig) };
            deliveries += 1;
            let cur = take_runlog();
            let mut problem = None;
            if cur.len() < prev.len() || cur[..prev.len()] != prev[..] {
                problem = Some(format!("the previous delivery ran {:x?}, this one {:x?}: registrations only append, so the earlier list must be a prefix of the later one", prev, cur));
            }
            let mut seen = std::collections::HashSet::new();
            let mut last_i = [-1i64; 8];
            for tag in cur.iter() {
                if !seen.insert(*tag) {
                    problem = Some(format!("action {:x} ran twice in one delivery: {:x?}", tag, cur));
                }
                let (t, i) = ((tag >> 8) & 0xff, (tag & 0xff) as i64);
                if t < 8 {
                    if i <= last_i[t] {
                        problem = Some(format!("actions of one registering thread out of its program order: {:x?}", cur));
                    }
                    last_i[t] = i;
                }
            }
            if let Some(pb) = problem {
                if bad < 2 {
                    wr(fd, &format!("BAD round {}: concurrent registrations on one signal: {}\n", round, pb));
                }
                bad += 1;
                break;
            }
            prev = cur;
            if finished_seen {
                break;
            }
            if all_done {
                finished_seen = true;
            }
        }
        let mut ids = Vec::new();
        for j in js {
            ids.extend(j.join().unwrap_or_default());
        }
        regs += ids.len() as u64;
        if bad == 0 && prev.len() != nthreads * per + 1 {
            wr(fd, &format!("BAD round {}: after {} registrations on signal {} had returned a delivery ran actions {:x?} ({} of them)\n", round, nthreads * per, sig, prev, prev.len()));
            bad += 1;
        }
        for id in ids {
            signal_hook_registry::unregister(id);
        }
        if bad > 0 {
            break 'rounds;
        }
    }
    director::uninstall();
    wr(fd, &format!("STATS reg={} unreg_live={} unreg_stale=0 unreg_other=0 clear=0 deliver={} signals=1 maxlen=24\n", regs, regs, deliveries));
    wr(fd, "DONE\n");
    0
}

/// Two removers race for the same registration (unregister vs unregister, unregister vs unregister_signal):
/// exactly one of them may report that it removed something.
fn child_race_remove(seed: u64, rounds: u64, fd: i32) -> i32 {
    use fork::wr;
    use crate::director::{self, mode, RuleSpec};
    director::install();
    let mut rng = Rng::new(seed);
    let sig = libc::SIGUSR1;
    let _keep = unsafe { signal_hook_registry::register(libc::SIGUSR2, || ()) };
    let mut bad = 0;
    for round in 0..rounds {
        director::clear_rules();
        for st in [crate::site::UNREG_CLONED, crate::site::UNREG_BEFORE_PUBLISH, crate::site::HL_W_LOCKED] {
            director::set_rule(st, RuleSpec { mode: mode::DELAY, p: 30000, max: 1 + rng.below(2000) as u32, ..Default::default() });
        }
        let id = match unsafe { signal_hook_registry::register(sig, || ()) } {
            Ok(id) => id,
            Err(_) => continue,
        };
        let by_signal = round % 3 == 2;
        let go = std::sync::Arc::new(std::sync::atomic::AtomicBool::new(false));
        let g2 = go.clone();
        let h = std::thread::spawn(move || {
            crate::set_thread(10, crate::class::MUTATOR);
            director::seed_thread(round + 5);
            while !g2.load(Ordering::SeqCst) {
                std::hint::spin_loop();
            }
            if by_signal {
                #[allow(deprecated)]
                signal_hook_registry::unregister_signal(sig)
            } else {
                signal_hook_registry::unregister(id)
            }
        });
        crate::set_thread(1, crate::class::MAIN);
        go.store(true, Ordering::SeqCst);
        let mine = signal_hook_registry::unregister(id);
        let theirs = h.join().unwrap_or(false);
        if mine as u32 + theirs as u32 != 1 && bad < 3 {
            wr(fd, &format!("BAD round {}: one registration, two concurrent removers ({}): unregister returned {} and the other returned {} - exactly one may report a removal\n", round, if by_signal { "unregister vs unregister_signal" } else { "unregister vs unregister" }, mine, theirs));
            bad += 1;
        }
    }
    director::uninstall();
    wr(fd, &format!("STATS reg={} unreg_live={} unreg_stale={} unreg_other=0 clear={} deliver=0 signals=1 maxlen=1\n", rounds, rounds, rounds, rounds / 3));
    wr(fd, "DONE\n");
    0
}

pub fn main(args: &[String]) -> i32 {
    let seed = arg_u64(args, "--seed", 1);
    let threads = arg_u64(args, "--threads", 1) as usize;
    let procs = arg_u64(args, "--procs", 8);
    let ops = arg_u64(args, "--ops", 2500);
    let t0 = crate::now_ms();
    let mut bad: Vec<(String, String)> = Vec::new();
    let mut keys = std::collections::HashSet::new();
    let mut samples = Vec::new();
    let mut tot: HashMap<String, u64> = HashMap::new();
    let mut inconclusive = None;
    for p in 0..procs {
        let s = seed * 1000 + p;
        let race = crate::has_flag(args, "--race-remove");
        let res = fork::probe(600_000, false, move |fd| {
            if race {
                match p {
                    0 => child_fresh(fd),
                    1 => child_odd_flags(fd),
                    2 | 3 => child_append(s, (ops / 20).max(20), fd),
                    _ => child_race_remove(s, ops, fd),
                }
            } else if threads > 1 {
                child_concurrent(s, ops, threads.min(4), fd)
            } else {
                child(s, ops, fd)
            }
        });
        match &res.end {
            End::Exit(0) if res.out.contains("DONE") => {}
            End::Timeout => {
                inconclusive = Some(format!("history seed {} timed out", s));
                continue;
            }
            other => bad.push(("model-run-died".into(), format!("history seed {}: child ended {:?} after: {}", s, other, res.out.lines().last().unwrap_or("")))),
        }
        if res.out.contains("INCONCLUSIVE") {
            inconclusive = Some("restart probe: reader never blocked".into());
        }
        for l in res.out.lines().filter(|l| l.starts_with("BAD ")) {
            let sigv = if l.contains("exactly one may report") { "two-removers-both-true" } else if l.contains("fresh process") || l.contains("fresh-process") { "fresh-process-removal" } else if l.contains("handed out before") { "id-reused" } else if l.contains("concurrent registrations on one signal") { "concurrent-registrations-not-appended" } else if l.contains("ran actions") { "delivery-differs-from-model" }
                else if l.contains("unregister") { "unregister-result" } else if l.contains("disposition") { "disposition-not-kept" }
                else if l.contains("restarted") { "blocking-read-interrupted" } else if l.contains("register(") { "register-failed" } else { "model-misc" };
            bad.push((sigv.into(), format!("{} [history seed {}]", &l[4..], s)));
        }
        if let Some(st) = res.out.lines().find(|l| l.starts_with("STATS ")) {
            for kv in st[6..].split_whitespace() {
                let mut it = kv.split('=');
                if let (Some(k), Some(v)) = (it.next(), it.next()) {
                    let v: u64 = v.parse().unwrap_or(0);
                    if k == "maxlen" || k == "signals" {
                        let e = tot.entry(format!("max_{}", k)).or_insert(0);
                        *e = (*e).max(v);
                    } else {
                        *tot.entry(k.to_string()).or_insert(0) += v;
                    }
                }
            }
            keys.insert(format!("seed{}:{}", s, st));
            if samples.len() < 4 {
                samples.push(J::s(&format!("history seed {} ({} ops): {}", s, ops, st)));
            }
        }
        if !bad.is_empty() {
            break;
        }
    }
    if crate::has_flag(args, "--race-remove") && bad.is_empty() {
        // history: a stop signal handled through the library's default emulation stops the process, SIGCONT continues it:
        // the library's handler is still the disposition of that signal (checked inside the child)
        let out = crate::w_default::stop_then_term(true, libc::SIGTSTP, libc::SIGTERM);
        keys.insert("emulated-stop-history".to_string());
        if let crate::w_default::Outcome::Other(m) = &out {
            if m.contains("no longer the disposition") {
                bad.push(("disposition-not-kept".into(), format!("{} [SIGTSTP emulated, then SIGCONT]", m)));
            }
        }
    }
    let mut nviol = 0;
    let mut seen = std::collections::HashSet::new();
    for (s, d) in bad.iter() {
        if seen.insert(s.clone()) {
            emit_violation("C05", s, d);
            nviol += 1;
        }
    }
    let mut j = J::obj()
        .set("type", J::s("summary"))
        .set("workload", J::s("w_model"))
        .set("mode", J::s(if crate::has_flag(args, "--race-remove") { "fresh+race-remove" } else if threads > 1 { "concurrent-owners" } else { "sequential" }))
        .set("seed", J::u(seed))
        .set("evaluations", J::u(procs * ops))
        .set("distinct_keys", J::arr(keys.iter().map(|k| J::s(k))))
        .set("samples", J::Arr(samples))
        .set("histories", J::u(procs))
        .set("ops_per_history", J::u(ops));
    for (k, v) in tot.iter() {
        j.put(&format!("model_{}", k), J::u(*v));
    }
    j.put("violations", J::u(nviol));
    j.put("wall_ms", J::u(crate::now_ms() - t0));
    emit(&j);
    if nviol == 0 {
        if let Some(r) = inconclusive {
            emit(&J::obj().set("type", J::s("inconclusive")).set("reason", J::s(&r)));
            return 2;
        }
    }
    if nviol > 0 { 1 } else { 0 }
}
