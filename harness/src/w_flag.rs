//! w_flag: flags and conditional shutdown / default (C15). Generated sequential scripts run in
//! forked children; the parent knows from the script's own model at which delivery (if any) the
//! process must end and with which status.

use std::sync::atomic::{AtomicBool, AtomicUsize, Ordering};
use std::sync::Arc;

use libc::c_int;

use crate::fork::{self, End};
use crate::jsonw::{emit, emit_violation, J};
use crate::rng::Rng;
use crate::arg_u64;

#[derive(Clone, Debug)]
enum Step {
    Set(bool),
    Deliver,
}

#[derive(Clone, Debug)]
struct Script {
    sig: c_int,
    status: c_int,
    /// 0 = conditional_shutdown, 1 = conditional_default
    kind: u32,
    /// shutdown registered before the arming flag action?
    shutdown_first: bool,
    /// use a separate flag action (register) on the same AtomicBool as the condition ("double Ctrl-C recipe")
    arm_by_signal: bool,
    initial: bool,
    /// the process has a second thread
    threads: bool,
    /// an unrelated action is registered first and unregistered before the deliveries (order of the rest must stay)
    other_removed: bool,
    /// an action between shutdown and arming flag re-raises the signal once: that second signal must be held back
    /// until the first delivery has returned (and then terminate)
    reraise_between: bool,
    /// a temporary action is registered and removed right before the recipe is registered; after everything is registered it is
    /// "removed" once more (documented as harmless: the id is stale)
    stale_unregister: bool,
    /// another thread spends its time inside deliveries of an unrelated signal while the script runs
    busy_other: bool,
    steps: Vec<Step>,
}

static MARK_FD: AtomicUsize = AtomicUsize::new(0);

extern "C" fn atexit_marker() {
    fork::wr(MARK_FD.load(Ordering::SeqCst) as i32, "ATEXIT\n");
}

/// Model: returns (index of the Deliver step at which the process ends, or None).
fn model(sc: &Script) -> Option<usize> {
    let mut flag = sc.initial;
    let reraised = false;
    for (i, st) in sc.steps.iter().enumerate() {
        match st {
            Step::Set(b) => flag = *b,
            Step::Deliver => {
                // actions in registration order
                if sc.reraise_between && sc.arm_by_signal && sc.shutdown_first && !reraised {
                    // first delivery arms the flag (or dies at once); the signal re-raised from inside it is delivered
                    // after it returned and then finds the condition true
                    let _ = flag;
                    return Some(i);
                }
                if sc.arm_by_signal {
                    if sc.shutdown_first {
                        if flag {
                            return Some(i);
                        }
                        flag = true;
                    } else {
                        flag = true;
                        if flag {
                            return Some(i);
                        }
                    }
                } else if flag {
                    return Some(i);
                }
            }
        }
    }
    None
}

fn run_child(sc: &Script, fd: i32) -> i32 {
    MARK_FD.store(fd as usize, Ordering::SeqCst);
    unsafe {
        libc::atexit(atexit_marker);
        let r = libc::rlimit { rlim_cur: 0, rlim_max: 0 };
        libc::setrlimit(libc::RLIMIT_CORE, &r);
    }
    if sc.threads {
        // a second thread that outlives the main one only if the shutdown fails to end the process
        let main_tid = crate::sig::gettid();
        std::thread::spawn(move || loop {
            std::thread::sleep(std::time::Duration::from_millis(2));
            let st = std::fs::read_to_string(format!("/proc/self/task/{}/stat", main_tid)).unwrap_or_default();
            let zombie = st.rsplit(')').next().map(|x| x.trim_start().starts_with('Z') || x.trim_start().starts_with('X')).unwrap_or(true);
            if st.is_empty() || zombie {
                fork::wr(fd, "THREAD-ONLY-EXIT\n");
                unsafe { libc::_exit(98) };
            }
        });
    }
    let cond = Arc::new(AtomicBool::new(sc.initial));
    let usize_flag = Arc::new(AtomicUsize::new(0));
    let seen = Arc::new(AtomicBool::new(true)); // plain flag, set to garbage by the app before deliveries
    let reg_shutdown = |cond: Arc<AtomicBool>| {
        if sc.kind == 0 {
            signal_hook::flag::register_conditional_shutdown(sc.sig, sc.status, cond).expect("register shutdown");
        } else {
            signal_hook::flag::register_conditional_default(sc.sig, cond).expect("register default");
        }
    };
    let other = if sc.other_removed { Some(unsafe { signal_hook_registry::register(sc.sig, || ()) }.expect("other")) } else { None };
    if sc.busy_other && sc.sig != libc::SIGWINCH {
        unsafe {
            signal_hook_registry::register(libc::SIGWINCH, || {
                for _ in 0..3000 {
                    std::hint::spin_loop();
                }
            })
            .expect("busy");
        }
        std::thread::spawn(|| loop {
            unsafe { libc::raise(libc::SIGWINCH) };
        });
    }
    let stale = if sc.stale_unregister {
        let id = unsafe { signal_hook_registry::register(sc.sig, || ()) }.expect("temporary");
        signal_hook_registry::unregister(id);
        Some(id)
    } else {
        None
    };
    if sc.shutdown_first {
        reg_shutdown(cond.clone());
    }
    if sc.reraise_between && sc.arm_by_signal && sc.shutdown_first {
        let once = Arc::new(AtomicBool::new(false));
        let sg = sc.sig;
        unsafe {
            signal_hook_registry::register(sg, move || {
                if !once.swap(true, Ordering::SeqCst) {
                    libc::raise(sg);
                }
            })
            .expect("reraise");
        }
    }
    if sc.arm_by_signal {
        signal_hook::flag::register(sc.sig, cond.clone()).expect("register flag");
    }
    if !sc.shutdown_first {
        reg_shutdown(cond.clone());
    }
    signal_hook::flag::register(sc.sig, seen.clone()).expect("register seen");
    signal_hook::flag::register_usize(sc.sig, usize_flag.clone(), 0xABCD).expect("register usize");
    // registered after the shutdown: must not run in the delivery that terminates
    let late_fd = fd;
    unsafe {
        signal_hook_registry::register(sc.sig, move || fork::wr(late_fd, "LATE\n")).expect("late");
    }
    if let Some(id) = other {
        signal_hook_registry::unregister(id);
    }
    if let Some(id) = stale {
        if signal_hook_registry::unregister(id) {
            fork::wr(fd, "BAD removing an id that had been removed before reported a removal\n");
        }
    }
    for (i, st) in sc.steps.iter().enumerate() {
        fork::wr(fd, &format!("STEP {}\n", i));
        match st {
            Step::Set(b) => cond.store(*b, Ordering::SeqCst),
            Step::Deliver => {
                seen.store(false, Ordering::SeqCst);
                usize_flag.store(7, Ordering::SeqCst);
                unsafe { libc::raise(sc.sig) };
                // survived: the plain flags must hold their registered values
                if !seen.load(Ordering::SeqCst) {
                    fork::wr(fd, &format!("BAD step {}: flag not true after the delivery returned\n", i));
                }
                if usize_flag.load(Ordering::SeqCst) != 0xABCD {
                    fork::wr(fd, &format!("BAD step {}: usize flag holds {:#x} after the delivery\n", i, usize_flag.load(Ordering::SeqCst)));
                }
                if sc.arm_by_signal && !cond.load(Ordering::SeqCst) {
                    fork::wr(fd, &format!("BAD step {}: arming flag not set by the delivery\n", i));
                }
                fork::wr(fd, &format!("SURVIVED {}\n", i));
            }
        }
    }
    fork::wr(fd, "END\n");
    // leave without exit-time hooks so that ATEXIT only appears if the library's shutdown ran them
    unsafe { libc::_exit(77) }
}

/// The recipe registered from several threads at the same moment: shutdown and arming flag by two threads, 80 unrelated
/// flags by four more. Every registration that returned Ok must be there: all flags get set, and the process ends with
/// the status at the first or second delivery (whichever order the two registrations took).
fn run_concurrent_child(sig: c_int, status: c_int, fd: i32) -> i32 {
    MARK_FD.store(fd as usize, Ordering::SeqCst);
    let other = if sig == libc::SIGUSR2 { libc::SIGUSR1 } else { libc::SIGUSR2 };
    let cond = Arc::new(AtomicBool::new(false));
    let barrier = Arc::new(std::sync::Barrier::new(6));
    let mut js = Vec::new();
    let flags: Vec<Arc<AtomicBool>> = (0..80).map(|_| Arc::new(AtomicBool::new(false))).collect();
    for t in 0..6usize {
        let (b, c) = (barrier.clone(), cond.clone());
        let mine: Vec<Arc<AtomicBool>> = if t >= 2 { flags[(t - 2) * 20..(t - 1) * 20].to_vec() } else { Vec::new() };
        js.push(std::thread::spawn(move || {
            b.wait();
            match t {
                0 => signal_hook::flag::register_conditional_shutdown(sig, status, c).is_ok(),
                1 => signal_hook::flag::register(sig, c).is_ok(),
                _ => mine.into_iter().all(|f| signal_hook::flag::register(other, f).is_ok()),
            }
        }));
    }
    let all_ok = js.into_iter().all(|j| j.join().unwrap_or(false));
    if !all_ok {
        fork::wr(fd, "BAD a concurrent registration failed\n");
    }
    unsafe { libc::raise(other) };
    let unset = flags.iter().filter(|f| !f.load(Ordering::SeqCst)).count();
    if unset > 0 {
        fork::wr(fd, &format!("BAD {} of 80 flags whose registration had returned Ok were not set by a delivery (registrations lost)\n", unset));
    }
    for i in 0..3 {
        fork::wr(fd, &format!("STEP {}\n", i));
        unsafe { libc::raise(sig) };
        fork::wr(fd, &format!("SURVIVED {}\n", i));
    }
    fork::wr(fd, "END\n");
    unsafe { libc::_exit(77) }
}

pub fn main(args: &[String]) -> i32 {
    let seed = arg_u64(args, "--seed", 1);
    let n = arg_u64(args, "--scripts", 600);
    let t0 = crate::now_ms();
    let mut rng = Rng::new(seed);
    let rt = crate::sig::rtmin();
    let shutdown_sigs = [libc::SIGTERM, libc::SIGQUIT, libc::SIGINT, libc::SIGHUP, libc::SIGUSR1, libc::SIGUSR2, libc::SIGALRM, rt + 2];
    let ignore_sigs = [libc::SIGCHLD, libc::SIGURG, libc::SIGWINCH, libc::SIGCONT];
    let term_default_sigs = [libc::SIGTERM, libc::SIGINT, libc::SIGHUP, libc::SIGUSR1, libc::SIGALRM, libc::SIGQUIT];
    let mut scripts: Vec<Script> = Vec::new();
    // (a) complete small grid: the documented double-Ctrl-C recipe for every arm/disarm history up to length 6 over
    //     {deliver, disarm} -- 2^1..2^6 histories x both registration orders
    for order in [true, false] {
        for len in 1..=6u32 {
            for bits in 0..(1u32 << len) {
                let steps: Vec<Step> = (0..len).map(|i| if bits >> i & 1 == 1 { Step::Deliver } else { Step::Set(false) }).collect();
                let sig = shutdown_sigs[((bits + len) as usize) % 3];
                scripts.push(Script { sig, status: ((bits * 37 + len) % 256) as c_int, kind: 0, shutdown_first: order, arm_by_signal: true, initial: false, threads: bits % 2 == 1, other_removed: bits % 3 == 1, reraise_between: false, stale_unregister: bits % 5 == 2, busy_other: bits % 7 == 3, steps });
            }
        }
    }
    let grid = scripts.len();
    // (b) random scripts
    for i in 0..n {
        let kind = if i % 4 == 3 { 1 } else { 0 };
        let sig = if kind == 1 {
            if rng.chance(1, 2) { *rng.pick(&ignore_sigs) } else { *rng.pick(&term_default_sigs) }
        } else {
            *rng.pick(&shutdown_sigs)
        };
        let len = rng.range(2, 9);
        let steps = (0..len).map(|_| if rng.chance(1, 2) { Step::Deliver } else { Step::Set(rng.chance(1, 2)) }).collect();
        scripts.push(Script {
            sig,
            status: (i % 256) as c_int,
            kind,
            shutdown_first: rng.chance(1, 2),
            arm_by_signal: kind == 0 && rng.chance(1, 2),
            initial: rng.chance(1, 4),
            threads: rng.chance(1, 2),
            other_removed: rng.chance(1, 3),
            reraise_between: kind == 0 && rng.chance(1, 6),
            stale_unregister: rng.chance(1, 4),
            busy_other: rng.chance(1, 5),
            steps,
        });
    }
    let mut bad: Vec<(String, String)> = Vec::new();
    let mut keys = std::collections::HashSet::new();
    let mut samples = Vec::new();
    let mut terminated = 0u64;
    let mut survived_all = 0u64;
    let mut inconclusive = None;
    for (idx, sc) in scripts.iter().enumerate() {
        let want_end = model(sc);
        let scc = sc.clone();
        let res = fork::probe(20_000, false, move |fd| run_child(&scc, fd));
        let label = format!("{:?}", sc);
        let last_step = res.out.lines().filter_map(|l| l.strip_prefix("STEP ")).filter_map(|x| x.parse::<usize>().ok()).last();
        let ignore_kind = sc.kind == 1 && ignore_sigs.contains(&sc.sig);
        for l in res.out.lines().filter(|l| l.starts_with("BAD")) {
            bad.push(("flag-value-after-delivery".into(), format!("{} || {}", l, label)));
        }
        if res.out.contains("THREAD-ONLY-EXIT") {
            bad.push(("shutdown-ended-only-the-thread".into(), format!("the delivering thread ended but the (multi-threaded) process lived on || {}", label)));
            continue;
        }
        match (&res.end, want_end) {
            (End::Timeout, _) => {
                inconclusive = Some(format!("script timed out: {}", label));
            }
            (_, Some(k)) if !ignore_kind => {
                terminated += 1;
                // must have ended during step k
                if last_step != Some(k) || res.out.contains(&format!("SURVIVED {}", k)) {
                    bad.push(("terminated-at-wrong-delivery".into(), format!("condition was true at step {} but the process went on / ended elsewhere (last step {:?}, end {:?}) || {}", k, last_step, res.end, label)));
                } else {
                    let ok = if sc.kind == 0 {
                        res.end == End::Exit(sc.status & 0xff)
                    } else {
                        matches!(res.end, End::Signal(s, _) if s == sc.sig)
                    };
                    if !ok {
                        bad.push(("wrong-exit-status".into(), format!("ended with {:?}, expected {} || {}", res.end, if sc.kind == 0 { format!("exit status {}", sc.status & 0xff) } else { format!("death by signal {}", sc.sig) }, label)));
                    }
                }
                if res.out.contains("ATEXIT") {
                    bad.push(("exit-hooks-ran".into(), format!("exit-time hooks ran during the shutdown || {}", label)));
                }
                // the "late" action (registered after the shutdown) ran in the terminating delivery?
                let lates = res.out.matches("LATE").count();
                let delivers_before = sc.steps[..k].iter().filter(|s| matches!(s, Step::Deliver)).count();
                if lates > delivers_before + sc.reraise_between as usize {
                    bad.push(("shutdown-not-immediate".into(), format!("an action registered after the shutdown ran in the terminating delivery ({} runs for {} earlier deliveries) || {}", lates, delivers_before, label)));
                }
            }
            (end, _) => {
                survived_all += 1;
                if *end != End::Exit(77) || !res.out.contains("END") {
                    bad.push(("terminated-although-condition-false".into(), format!("the condition was false at every delivery{} but the process ended with {:?} after step {:?} || {}", if ignore_kind { " (or the default action is ignore)" } else { "" }, end, last_step, label)));
                }
            }
        }
        keys.insert(format!("{}:{}:{}:{}:{}:{}:{}:{}:{}:{:?}", sc.kind, sc.sig, sc.shutdown_first, sc.arm_by_signal, sc.threads, sc.other_removed, sc.reraise_between, sc.stale_unregister, sc.busy_other, want_end.map(|k| sc.steps[..=k].iter().filter(|s| matches!(s, Step::Deliver)).count())));
        if samples.len() < 6 && idx % 97 == 3 {
            samples.push(J::s(&format!("{} -> {:?} after step {:?} (model: ends at {:?})", label, res.end, last_step, want_end)));
        }
        if !bad.is_empty() && !crate::has_flag(args, "--keep-going") {
            break;
        }
    }
    // (c) the recipe registered concurrently
    let conc = arg_u64(args, "--concurrent", 40);
    let mut conc_done = 0u64;
    if bad.is_empty() {
        for i in 0..conc {
            let sig = shutdown_sigs[(i as usize + seed as usize) % shutdown_sigs.len()];
            let status = ((i * 13 + seed) % 250 + 1) as c_int;
            let res = fork::probe_ex(20_000, false, true, move |fd| run_concurrent_child(sig, status, fd));
            let label = format!("concurrent registration of the recipe on signal {} status {}", sig, status);
            conc_done += 1;
            for l in res.out.lines().filter(|l| l.starts_with("BAD")) {
                bad.push(("concurrent-registration-lost".into(), format!("{} || {}", l, label)));
            }
            match &res.end {
                End::Timeout => inconclusive = Some(format!("timed out: {}", label)),
                End::Exit(c) if *c == status && !res.out.contains("SURVIVED 1") => {}
                other => bad.push(("concurrent-registration-lost".into(), format!("after shutdown and arming flag had both been registered (by two threads at once) the process ended with {:?} after {:?} instead of exit status {} at the first or second delivery || {}", other, res.out.lines().last(), status, label))),
            }
            keys.insert("concurrent-recipe".to_string());
            if !bad.is_empty() {
                break;
            }
        }
    }
    let mut nviol = 0;
    let mut seen = std::collections::HashSet::new();
    for (s, d) in bad.iter() {
        if seen.insert(s.clone()) {
            emit_violation("C15", s, d);
            nviol += 1;
        }
    }
    emit(&J::obj()
        .set("type", J::s("summary"))
        .set("workload", J::s("w_flag"))
        .set("seed", J::u(seed))
        .set("evaluations", J::u(scripts.len() as u64))
        .set("distinct_keys", J::arr(keys.iter().map(|k| J::s(k))))
        .set("samples", J::Arr(samples))
        .set("recipe_grid_scripts", J::u(grid as u64))
        .set("scripts_terminated", J::u(terminated))
        .set("scripts_survived", J::u(survived_all))
        .set("concurrent_recipe_children", J::u(conc_done))
        .set("violations", J::u(nviol))
        .set("wall_ms", J::u(crate::now_ms() - t0)));
    if nviol == 0 {
        if let Some(r) = inconclusive {
            emit(&J::obj().set("type", J::s("inconclusive")).set("reason", J::s(&r)));
            return 2;
        }
    }
    if nviol > 0 { 1 } else { 0 }
}
