//! Global append-only event log. The index handed out by one SeqCst `fetch_add` is the stamp, so
//! "stamp(x) < stamp(y)" is a definitely-before relation on one total order.
//!
//! Harness-level kinds start at 1000; kinds below are hook sites (`site::*`).

use std::sync::atomic::{AtomicBool, AtomicPtr, AtomicUsize, Ordering};

#[derive(Clone, Copy, Debug, Default)]
#[repr(C)]
pub struct Ev {
    pub tid: u32,
    pub kind: u32,
    pub a: u64,
    pub b: u64,
}

pub mod kind {
    pub const CALL: u32 = 1000; // a = op code, b = arg
    pub const RET: u32 = 1001; // a = op code, b = result
    pub const SEND: u32 = 1002; // a = signal, b = seq
    pub const ACT_BEGIN: u32 = 1003; // a = action tag, b = signal/seq
    pub const ACT_END: u32 = 1004;
    pub const YIELD: u32 = 1005; // a = signal, b = seq/aux
    pub const PREV: u32 = 1006; // foreign handler ran: a = signal, b = seq
    pub const CB_ASK: u32 = 1007; // poll callback consulted, b = answer
    pub const POLL_RET: u32 = 1008; // a = result kind
    pub const MARK: u32 = 1009;
    pub const DROPPED: u32 = 1010; // a = tag
}

static PTR: AtomicPtr<Ev> = AtomicPtr::new(std::ptr::null_mut());
static CAP: AtomicUsize = AtomicUsize::new(0);
static NEXT: AtomicUsize = AtomicUsize::new(0);
static ON: AtomicBool = AtomicBool::new(false);
pub static OVERFLOW: AtomicBool = AtomicBool::new(false);

/// Allocates the log (once).
pub fn init(cap: usize) {
    let v: Vec<Ev> = vec![Ev::default(); cap];
    let b = v.into_boxed_slice();
    let p = Box::leak(b).as_mut_ptr();
    PTR.store(p, Ordering::SeqCst);
    CAP.store(cap, Ordering::SeqCst);
    NEXT.store(0, Ordering::SeqCst);
}

pub fn enable(on: bool) {
    ON.store(on, Ordering::SeqCst);
}

#[inline]
pub fn enabled() -> bool {
    ON.load(Ordering::Relaxed)
}

/// Only at quiescence.
pub fn reset() {
    NEXT.store(0, Ordering::SeqCst);
    OVERFLOW.store(false, Ordering::SeqCst);
}

static CLK: AtomicUsize = AtomicUsize::new(1);

/// A tick of a separate global clock (not comparable with log stamps); usable when the log is off.
#[inline]
pub fn tick() -> usize {
    CLK.fetch_add(1, Ordering::SeqCst)
}

/// Appends an event; returns its stamp (usize::MAX if logging is off).
#[inline]
pub fn log(kind: u32, a: u64, b: u64) -> usize {
    if !ON.load(Ordering::Relaxed) {
        return usize::MAX;
    }
    let i = NEXT.fetch_add(1, Ordering::SeqCst);
    let cap = CAP.load(Ordering::Relaxed);
    if i < cap {
        let p = PTR.load(Ordering::Relaxed);
        let tid = crate::tid();
        unsafe { p.add(i).write(Ev { tid, kind, a, b }) };
    } else {
        OVERFLOW.store(true, Ordering::Relaxed);
    }
    i
}

/// Snapshot of the events so far. Only at quiescence.
pub fn snapshot() -> Vec<Ev> {
    let n = NEXT.load(Ordering::SeqCst).min(CAP.load(Ordering::SeqCst));
    let p = PTR.load(Ordering::SeqCst);
    let mut v = Vec::with_capacity(n);
    for i in 0..n {
        v.push(unsafe { p.add(i).read() });
    }
    v
}

pub fn len() -> usize {
    NEXT.load(Ordering::SeqCst)
}
