//! Half-lock program shared by the native workload (`vh w_halflock`) and the Miri program
//! (`m_halflock`): readers (with nested reads, as a signal handler interrupting a handler
//! would do) against writers that replace a heap payload. The payload knows its version, so a
//! reader that gets a stale/freed payload sees it; Miri / ASan see the use-after-free or the
//! data race directly.

use std::sync::atomic::{AtomicU64, AtomicUsize, Ordering};
use std::sync::Arc;

use signal_hook_registry::verif::HalfLockProbe;

pub static DROPS: AtomicU64 = AtomicU64::new(0);
pub static LIVE: AtomicU64 = AtomicU64::new(0);

pub struct Payload {
    pub ver: usize,
    pub data: Box<[usize; 6]>,
}

impl Payload {
    pub fn new(ver: usize) -> Self {
        LIVE.fetch_add(1, Ordering::Relaxed);
        Payload { ver, data: Box::new([ver; 6]) }
    }
}

impl Drop for Payload {
    fn drop(&mut self) {
        // poison, so that a late reader sees garbage natively
        for x in self.data.iter_mut() {
            *x = usize::MAX;
        }
        DROPS.fetch_add(1, Ordering::Relaxed);
        LIVE.fetch_sub(1, Ordering::Relaxed);
    }
}

pub struct Stats {
    pub reads: u64,
    pub nested_reads: u64,
    pub updates: u64,
    pub versions_seen: u64,
    pub fingerprint: u64,
    pub bad: Vec<String>,
}

#[inline]
fn check(p: &Payload, floor: usize, bad: &mut Vec<String>) -> usize {
    let v = p.ver;
    for x in p.data.iter() {
        if *x != v {
            if bad.len() < 4 {
                bad.push(format!("payload ver {} has cell {:#x} (freed or torn)", v, *x));
            }
        }
    }
    if v < floor && bad.len() < 4 {
        bad.push(format!("reader saw version {} after it had seen {}", v, floor));
    }
    v
}

/// `readers` threads each do `r_iters` reads (every `nest_every`-th one nests a second read
/// inside the first); `writers` threads each do `w_iters` updates.
pub fn run(readers: usize, writers: usize, r_iters: usize, w_iters: usize, nest_every: usize) -> Stats {
    let probe = Arc::new(HalfLockProbe::new(Payload::new(0)));
    let total_updates = Arc::new(AtomicUsize::new(0));
    let mut joins = Vec::new();
    for r in 0..readers {
        let probe = probe.clone();
        joins.push(std::thread::spawn(move || {
            crate::set_thread(10 + r as u32, crate::class::VICTIM);
            let mut bad = Vec::new();
            let mut floor = 0usize;
            let mut nested = 0u64;
            let mut fp = 0u64;
            let mut distinct = 0u64;
            for i in 0..r_iters {
                let v = probe.read(|p| {
                    let v = check(p, floor, &mut bad);
                    if nest_every != 0 && i % nest_every == 0 {
                        // a second delivery interrupting the first: nested read section
                        let v2 = probe.read(|q| check(q, v, &mut bad));
                        nested += 1;
                        // the outer payload must still be intact after the inner section
                        check(p, floor, &mut bad);
                        return v2.max(v);
                    }
                    v
                });
                if v != floor {
                    distinct += 1;
                }
                floor = floor.max(v);
                fp = fp.wrapping_mul(1099511628211).wrapping_add(v as u64 + 1);
            }
            crate::director::flush_counts();
            (r_iters as u64, nested, distinct, fp, bad)
        }));
    }
    let mut wjoins = Vec::new();
    for w in 0..writers {
        let probe = probe.clone();
        let total = total_updates.clone();
        wjoins.push(std::thread::spawn(move || {
            crate::set_thread(30 + w as u32, crate::class::MUTATOR);
            for _ in 0..w_iters {
                probe.update(|old| {
                    let mut b = Vec::new();
                    check(old, 0, &mut b);
                    assert!(b.is_empty(), "writer saw a broken current payload: {:?}", b);
                    Payload::new(old.ver + 1)
                });
                total.fetch_add(1, Ordering::Relaxed);
            }
            crate::director::flush_counts();
        }));
    }
    let mut st = Stats { reads: 0, nested_reads: 0, updates: 0, versions_seen: 0, fingerprint: 0, bad: vec![] };
    for j in joins {
        let (r, n, d, fp, bad) = j.join().expect("reader panicked");
        st.reads += r;
        st.nested_reads += n;
        st.versions_seen += d;
        st.fingerprint ^= fp;
        st.bad.extend(bad);
    }
    for j in wjoins {
        j.join().expect("writer panicked");
    }
    st.updates = total_updates.load(Ordering::SeqCst) as u64;
    // final value and drop accounting
    let fin = probe.read(|p| p.ver);
    if fin as u64 != st.updates {
        st.bad.push(format!("final version {} != number of updates {}", fin, st.updates));
    }
    drop(probe);
    let drops = DROPS.swap(0, Ordering::SeqCst);
    let live = LIVE.load(Ordering::SeqCst);
    if drops != st.updates + 1 || live != 0 {
        st.bad.push(format!("payload drops {} (expected {}), still live {}", drops, st.updates + 1, live));
    }
    st
}
