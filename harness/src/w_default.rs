//! w_default: default-action emulation against the kernel (C16). Complete grid of paired forked
//! probes: native default disposition vs `emulate_default_handler`, in three contexts.

use std::ffi::CStr;

use libc::c_int;

use crate::fork::{self, End};
use crate::jsonw::{emit, emit_violation, J};
use crate::arg_u64;

extern "C" {
    fn sigabbrev_np(sig: c_int) -> *const libc::c_char;
}

fn no_core() {
    unsafe {
        let r = libc::rlimit { rlim_cur: 0, rlim_max: 0 };
        libc::setrlimit(libc::RLIMIT_CORE, &r);
    }
}

fn own_group() {
    // a group of its own whose parent (the harness) lives in another group of the same session:
    // not orphaned, so terminal stop signals are not discarded by the kernel
    unsafe { libc::setpgid(0, 0) };
}

fn all_default_and_unblocked() {
    unsafe {
        for s in 1..=64 {
            if s == libc::SIGKILL || s == libc::SIGSTOP || s == 32 || s == 33 {
                continue;
            }
            libc::signal(s, libc::SIG_DFL);
        }
        let mut set: libc::sigset_t = std::mem::zeroed();
        libc::sigfillset(&mut set);
        libc::sigprocmask(libc::SIG_UNBLOCK, &set, std::ptr::null_mut());
    }
}

#[derive(Debug, Clone, PartialEq)]
pub(crate) enum Outcome {
    TermBy(i32),
    Stopped,
    Continues,
    ReturnedErr,
    Other(String),
}

fn classify(e: &End) -> Outcome {
    match e {
        End::Signal(s, _) => Outcome::TermBy(*s),
        End::Stopped(_) => Outcome::Stopped,
        End::Exit(0) => Outcome::Continues,
        End::Exit(10) => Outcome::ReturnedErr,
        other => Outcome::Other(format!("{:?}", other)),
    }
}

fn native(n: c_int) -> End {
    fork::probe(10_000, true, move |_fd| {
        no_core();
        own_group();
        all_default_and_unblocked();
        unsafe { libc::raise(n) };
        0
    })
    .end
}

/// ctx 0: plain call; 1: from inside the signal's own registered action; 2: with the signal blocked;
/// 3: with another signal blocked and pending; 4: on a non-main thread of a multi-threaded process.
fn emulated(n: c_int, ctx: u32) -> (End, String) {
    let r = fork::probe(10_000, true, move |fd| {
        no_core();
        own_group();
        all_default_and_unblocked();
        let before = dispositions();
        match ctx {
            0 => match signal_hook::low_level::emulate_default_handler(n) {
                Ok(()) => {}
                Err(_) => {
                    if dispositions() != before {
                        fork::wr(fd, "DISPOSITION-CHANGED\n");
                    }
                    return 10;
                }
            },
            1 => {
                let res = std::sync::Arc::new(std::sync::atomic::AtomicI32::new(0));
                let r2 = res.clone();
                let act = move || {
                    let r = signal_hook::low_level::emulate_default_handler(n);
                    r2.store(if r.is_ok() { 1 } else { 2 }, std::sync::atomic::Ordering::SeqCst);
                };
                let reg = unsafe { signal_hook_registry::register_signal_unchecked(n, act) };
                if reg.is_err() {
                    return 20;
                }
                unsafe { libc::raise(n) };
                match res.load(std::sync::atomic::Ordering::SeqCst) {
                    1 => {}
                    2 => return 10,
                    _ => return 21,
                }
            }
            2 => {
                crate::sig::block(n, libc::SIG_BLOCK);
                if signal_hook::low_level::emulate_default_handler(n).is_err() {
                    return 10;
                }
            }
            3 => {
                // an unrelated signal is blocked and pending (default disposition: it would terminate)
                let x = if n == libc::SIGUSR2 { libc::SIGUSR1 } else { libc::SIGUSR2 };
                crate::sig::block(x, libc::SIG_BLOCK);
                unsafe { libc::raise(x) };
                if signal_hook::low_level::emulate_default_handler(n).is_err() {
                    return 10;
                }
                // still here: the other signal must still be blocked and pending
                if !crate::sig::is_pending(x) {
                    return 22;
                }
            }
            5 => {
                // the signal is currently ignored (nohup, background job, SIGPIPE in every Rust program): the emulation
                // must still do what the DEFAULT disposition would do
                unsafe { libc::signal(n, libc::SIG_IGN) };
                if signal_hook::low_level::emulate_default_handler(n).is_err() {
                    return 10;
                }
            }
            _ => {
                // multi-threaded process, emulation on a thread that is not the main one
                let h = std::thread::spawn(move || signal_hook::low_level::emulate_default_handler(n).is_err());
                let t0 = crate::now_ms();
                while !h.is_finished() && crate::now_ms() - t0 < 5000 {
                    std::hint::spin_loop();
                }
                match h.join() {
                    Ok(true) => return 10,
                    Ok(false) => {}
                    Err(_) => return 23,
                }
            }
        }
        0
    });
    (r.end, r.out)
}

fn dispositions() -> Vec<(usize, c_int)> {
    (1..=64).map(|s| crate::sig::disposition(s).unwrap_or((usize::MAX, -1))).collect()
}

fn platform_names(n: c_int) -> Vec<String> {
    let mut v = Vec::new();
    let p = unsafe { sigabbrev_np(n) };
    if !p.is_null() {
        v.push(format!("SIG{}", unsafe { CStr::from_ptr(p) }.to_string_lossy()));
    }
    let aliases: [(c_int, &str); 6] = [
        (libc::SIGIO, "SIGIO"), (libc::SIGIO, "SIGPOLL"), (libc::SIGABRT, "SIGIOT"), (libc::SIGCHLD, "SIGCLD"),
        (libc::SIGSYS, "SIGUNUSED"), (libc::SIGABRT, "SIGABRT"),
    ];
    for (s, name) in aliases.iter() {
        if *s == n {
            v.push(name.to_string());
        }
    }
    v
}

/// A terminating signal that arrives while the process is stopped by a stop signal: once continued, the process dies of it.
/// `emulated`: both signals go through conditional-default actions of the library instead of the kernel's dispositions.
static STOP_SEEN: std::sync::atomic::AtomicU64 = std::sync::atomic::AtomicU64::new(0);

pub(crate) fn stop_then_term(emulated: bool, stop_sig: c_int, term_sig: c_int) -> Outcome {
    unsafe {
        let mut ready = [0i32; 2];
        libc::pipe(ready.as_mut_ptr());
        let pid = libc::fork();
        if pid == 0 {
            libc::close(ready[0]);
            no_core();
            own_group();
            all_default_and_unblocked();
            if emulated {
                let on = std::sync::Arc::new(std::sync::atomic::AtomicBool::new(true));
                let _cnt = signal_hook_registry::register(stop_sig, || {
                    STOP_SEEN.fetch_add(1, std::sync::atomic::Ordering::SeqCst);
                });
                let a = signal_hook::flag::register_conditional_default(stop_sig, on.clone());
                let b = signal_hook::flag::register_conditional_default(term_sig, on);
                if a.is_err() || b.is_err() {
                    libc::_exit(20);
                }
            }
            libc::write(ready[1], b"r".as_ptr() as *const _, 1);
            // alive for a while, then give up (the parent reads that as "survived")
            let dispatcher = signal_hook_registry::verif::dispatcher_addr();
            for _ in 0..300 {
                libc::usleep(10_000);
                if emulated && STOP_SEEN.load(std::sync::atomic::Ordering::SeqCst) >= 1 {
                    // it has been stopped and continued: the library's handler must still be the disposition of the stop signal
                    if crate::sig::disposition(stop_sig).map(|d| d.0) != Some(dispatcher) {
                        libc::_exit(43);
                    }
                }
            }
            libc::_exit(42);
        }
        let mut status = 0;
        libc::close(ready[1]);
        let mut b = [0u8; 1];
        libc::read(ready[0], b.as_mut_ptr() as *mut _, 1);
        libc::close(ready[0]);
        libc::kill(pid, stop_sig);
        let t0 = crate::now_ms();
        loop {
            let r = libc::waitpid(pid, &mut status, libc::WUNTRACED | libc::WNOHANG);
            if r == pid {
                break;
            }
            if crate::now_ms() - t0 > 5000 {
                libc::kill(pid, libc::SIGKILL);
                libc::waitpid(pid, &mut status, 0);
                return Outcome::Other("not stopped by the stop signal".into());
            }
            libc::usleep(1000);
        }
        if !libc::WIFSTOPPED(status) {
            return Outcome::Other(format!("ended instead of stopping (status {:#x})", status));
        }
        // continued and stopped a second time: the second stop signal stops it like the first one did
        libc::kill(pid, libc::SIGCONT);
        libc::usleep(20_000);
        libc::kill(pid, stop_sig);
        let t0 = crate::now_ms();
        loop {
            let r = libc::waitpid(pid, &mut status, libc::WUNTRACED | libc::WNOHANG);
            if r == pid {
                break;
            }
            if crate::now_ms() - t0 > 3000 {
                libc::kill(pid, libc::SIGKILL);
                libc::waitpid(pid, &mut status, 0);
                return Outcome::Other("second stop signal did not stop the process".into());
            }
            libc::usleep(1000);
        }
        if !libc::WIFSTOPPED(status) {
            if libc::WIFEXITED(status) && libc::WEXITSTATUS(status) == 43 {
                return Outcome::Other("after an emulated stop the library's handler is no longer the disposition of the stop signal".into());
            }
            return Outcome::Other(format!("ended instead of stopping a second time (status {:#x})", status));
        }
        libc::kill(pid, term_sig);
        libc::usleep(5_000);
        libc::kill(pid, libc::SIGCONT);
        let t0 = crate::now_ms();
        loop {
            let r = libc::waitpid(pid, &mut status, libc::WNOHANG);
            if r == pid {
                break;
            }
            if crate::now_ms() - t0 > 10_000 {
                libc::kill(pid, libc::SIGKILL);
                libc::waitpid(pid, &mut status, 0);
                return Outcome::Other("neither died nor gave up".into());
            }
            libc::usleep(1000);
        }
        if libc::WIFSIGNALED(status) {
            Outcome::TermBy(libc::WTERMSIG(status))
        } else if libc::WIFEXITED(status) && libc::WEXITSTATUS(status) == 43 {
            Outcome::Other("after an emulated stop the library's handler is no longer the disposition of the stop signal".into())
        } else if libc::WIFEXITED(status) && libc::WEXITSTATUS(status) == 42 {
            Outcome::Continues
        } else {
            Outcome::Other(format!("status {:#x}", status))
        }
    }
}

static STEP_GO: std::sync::atomic::AtomicBool = std::sync::atomic::AtomicBool::new(false);
static STEP_DONE: std::sync::atomic::AtomicBool = std::sync::atomic::AtomicBool::new(false);

/// The helper's registration has done everything up to the wait for the readers of the old snapshot (which, when the
/// emulation runs inside an action, include the emulating thread itself: it cannot finish before the delivery does).
fn step_observer(s: u32, _a: usize, _b: usize) {
    if crate::tid() == 2 && s == crate::site::HL_B_FIRST {
        STEP_DONE.store(true, std::sync::atomic::Ordering::SeqCst);
    }
}

fn step_rendezvous(_k: u64, _rip: usize) {
    use std::sync::atomic::Ordering;
    STEP_GO.store(true, Ordering::SeqCst);
    let mut i = 0u64;
    while !STEP_DONE.load(Ordering::SeqCst) {
        i += 1;
        if i % 64 == 0 {
            unsafe { libc::sched_yield() };
        }
    }
}

/// The emulation of a signal the library already manages, while another thread registers one more action for the
/// same signal: that registration runs to completion at the k-th instruction of the emulation (the emulating thread
/// single-steps itself). The outcome must still be the kernel's default for the signal.
fn emulated_with_registration_at(n: c_int, inside_action: bool, k: u64) -> (End, bool) {
    let r = fork::probe(10_000, true, move |fd| {
        use std::sync::atomic::Ordering;
        no_core();
        own_group();
        all_default_and_unblocked();
        crate::set_thread(1, crate::class::MAIN);
        crate::director::install();
        crate::director::set_observer(Some(step_observer));
        crate::istep::install();
        let helper = std::thread::spawn(move || {
            crate::set_thread(2, crate::class::MUTATOR);
            while !STEP_GO.load(Ordering::SeqCst) {
                std::hint::spin_loop();
            }
            let _ = unsafe { signal_hook_registry::register(n, || ()) };
            fork::wr(fd, "FIRED\n");
            STEP_DONE.store(true, Ordering::SeqCst);
        });
        if inside_action {
            let act = move || {
                crate::istep::arm(k, 20_000, step_rendezvous);
                let _ = signal_hook::low_level::emulate_default_handler(n);
                crate::istep::disarm();
            };
            if unsafe { signal_hook_registry::register(n, act) }.is_err() {
                return 20;
            }
            unsafe { libc::raise(n) };
        } else {
            if unsafe { signal_hook_registry::register(n, || ()) }.is_err() {
                return 20;
            }
            crate::istep::arm(k, 20_000, step_rendezvous);
            let _ = signal_hook::low_level::emulate_default_handler(n);
            crate::istep::disarm();
        }
        // still alive: let the helper end
        STEP_GO.store(true, Ordering::SeqCst);
        let _ = helper.join();
        0
    });
    (r.end, r.out.contains("FIRED"))
}

pub fn main(args: &[String]) -> i32 {
    let seed = arg_u64(args, "--seed", 1);
    let t0 = crate::now_ms();
    let mut bad: Vec<(String, String)> = Vec::new();
    let mut rows = Vec::new();
    let mut keys = std::collections::HashSet::new();
    let mut probes = 0u64;
    let mut inconclusive = None;
    // history of the harness process itself: it has raised a signal through the library before it forks the probes (a forked
    // process inherits whatever the library remembered then)
    let _ = signal_hook::low_level::raise(libc::SIGWINCH);
    let mut numbers: Vec<c_int> = (1..=64).collect();
    numbers.extend([0, -1, 65, 100, 128, 1000]);
    for n in numbers.iter().cloned() {
        let name = signal_hook::low_level::signal_name(n);
        // ---- names
        if let Some(nm) = name {
            let plat = platform_names(n);
            if !plat.iter().any(|p| p == nm) {
                bad.push((format!("name-mismatch-{}", n), format!("signal_name({}) = {} but the platform calls it {:?}", n, nm, plat)));
            }
        }
        let nat = if (1..=64).contains(&n) && n != 32 && n != 33 { Some(classify(&native(n))) } else { None };
        probes += nat.is_some() as u64;
        for ctx in 0..6u32 {
            if ctx == 1 && (n == libc::SIGKILL || n == libc::SIGSTOP || !(1..=64).contains(&n) || n == 32 || n == 33) {
                continue;
            }
            let (e, out) = emulated(n, ctx);
            probes += 1;
            let emu = classify(&e);
            if matches!(e, End::Timeout) {
                inconclusive = Some(format!("probe for signal {} ctx {} timed out", n, ctx));
                continue;
            }
            let label = format!("signal {} ({}) context {}", n, name.unwrap_or("unnamed"), ["plain", "inside-own-action", "blocked", "other-signal-blocked-and-pending", "on-a-non-main-thread", "currently-ignored"][ctx as usize]);
            match name {
                Some(_) => {
                    let want = nat.clone().unwrap_or(Outcome::Other("no native probe".into()));
                    if emu != want {
                        bad.push((format!("default-mismatch-sig{}", n), format!("{}: emulation -> {:?}, kernel default -> {:?}", label, emu, want)));
                    }
                    keys.insert(format!("{}:{}:{:?}", n, ctx, emu));
                }
                None => {
                    // ctx 1 with an unnamed but catchable signal: the action's call must return Err and nothing else happens
                    if emu != Outcome::ReturnedErr {
                        bad.push((format!("unknown-signal-not-refused-{}", n), format!("{}: emulate_default_handler did not return an error: {:?}", label, emu)));
                    }
                    if out.contains("DISPOSITION-CHANGED") {
                        bad.push((format!("unknown-signal-side-effect-{}", n), format!("{}: dispositions changed although an error was returned", label)));
                    }
                    keys.insert(format!("{}:{}:err", n, ctx));
                }
            }
            if rows.len() < 12 && (ctx == 1 || n == libc::SIGTSTP || n == libc::SIGIO) {
                rows.push(J::s(&format!("{} -> emulated {:?}, native {:?}", label, emu, nat)));
            }
        }
    }
    // ---- the conditional-default registration must refuse unknown signals without leaving anything behind
    for n in (1..=64).chain([0, -1, 65, 128]) {
        if signal_hook::low_level::signal_name(n).is_some() || n == 32 || n == 33 {
            continue;
        }
        let r = fork::probe(10_000, false, move |fd| {
            let before = dispositions();
            let flag = std::sync::Arc::new(std::sync::atomic::AtomicBool::new(true));
            let res = signal_hook::flag::register_conditional_default(n, flag.clone());
            if res.is_ok() {
                fork::wr(fd, "ACCEPTED\n");
            }
            if dispositions() != before {
                fork::wr(fd, "DISPOSITION-CHANGED\n");
            }
            if std::sync::Arc::strong_count(&flag) != 1 {
                fork::wr(fd, "FLAG-KEPT\n");
            }
            0
        });
        probes += 1;
        keys.insert(format!("cond-default:{}", n));
        if r.out.contains("ACCEPTED") {
            bad.push((format!("unknown-signal-not-refused-{}", n), format!("register_conditional_default({}) accepted a signal the library has no name for", n)));
        }
        if r.out.contains("DISPOSITION-CHANGED") || r.out.contains("FLAG-KEPT") {
            bad.push((format!("unknown-signal-side-effect-{}", n), format!("register_conditional_default({}) returned an error but left something behind: {}", n, r.out.replace('\n', " "))));
        }
    }
    // ---- look-ups of different signals that overlap in time (threads): every answer is the one for its own number
    {
        let res = fork::probe(30_000, false, |fd| {
            let sigs = [libc::SIGWINCH, libc::SIGURG, libc::SIGTSTP, libc::SIGTERM, libc::SIGHUP, libc::SIGCHLD];
            let want: Vec<Option<&'static str>> = sigs.iter().map(|s| signal_hook::low_level::signal_name(*s)).collect();
            let mut js = Vec::new();
            for t in 0..4usize {
                let want = want.clone();
                js.push(std::thread::spawn(move || {
                    let mut wrong = 0u64;
                    for i in 0..400_000usize {
                        let k = (i + t) % sigs.len();
                        if signal_hook::low_level::signal_name(sigs[k]) != want[k] {
                            wrong += 1;
                        }
                    }
                    wrong
                }));
            }
            let wrong: u64 = js.into_iter().map(|j| j.join().unwrap_or(1)).sum();
            fork::wr(fd, &format!("WRONG {}\n", wrong));
            0
        });
        probes += 1;
        keys.insert("overlapping-lookups".to_string());
        match res.out.lines().find(|l| l.starts_with("WRONG ")) {
            Some("WRONG 0") => {}
            Some(l) => bad.push(("name-mismatch-overlapping-lookups".into(), format!("four threads looking up six signal numbers at the same time: {} answers were the name of another signal", &l[6..]))),
            None => inconclusive = Some(format!("overlapping look-ups probe ended {:?}", res.end)),
        }
    }
    // ---- a terminating signal sent while the process is stopped through the emulation of a stop signal
    for (stop_sig, term_sig) in [(libc::SIGTSTP, libc::SIGTERM), (libc::SIGTTIN, libc::SIGINT), (libc::SIGTSTP, libc::SIGUSR1)] {
        let nat = stop_then_term(false, stop_sig, term_sig);
        let emu = stop_then_term(true, stop_sig, term_sig);
        probes += 2;
        keys.insert(format!("stop-then-term:{}:{}:{:?}", stop_sig, term_sig, emu));
        if matches!(nat, Outcome::Other(_)) {
            inconclusive = Some(format!("stop-then-term reference run for signals {}/{}: {:?}", stop_sig, term_sig, nat));
        } else if emu != nat {
            bad.push((format!("default-mismatch-sig{}-while-stopped", term_sig), format!(
                "signal {} sent while the process is stopped by signal {} (both handled by the emulation), then SIGCONT: emulation -> {:?}, kernel default -> {:?}",
                term_sig, stop_sig, emu, nat)));
        }
    }
    // ---- a registration for the same (already managed) signal completes on another thread at the k-th instruction of
    //      the emulation
    let stride = arg_u64(args, "--step-stride", 4);
    let (mut step_trials, mut step_fired) = (0u64, 0u64);
    if stride > 0 && crate::istep::supported() && bad.is_empty() {
        'steps: for n in [libc::SIGUSR1, libc::SIGTERM] {
            let want = classify(&native(n));
            for inside in [false, true] {
                let mut k = 1 + seed % stride;
                let mut misses = 0;
                while k < 4000 && misses < 12 {
                    let (e, fired) = emulated_with_registration_at(n, inside, k);
                    step_trials += 1;
                    probes += 1;
                    if matches!(e, End::Timeout) {
                        inconclusive = Some(format!("stepping probe for signal {} k {} timed out", n, k));
                        break 'steps;
                    }
                    if fired {
                        step_fired += 1;
                        misses = 0;
                        keys.insert(format!("step:{}:{}", n, inside));
                    } else {
                        misses += 1;
                    }
                    let emu = classify(&e);
                    if emu != want {
                        bad.push((format!("default-mismatch-sig{}-with-concurrent-registration", n), format!(
                            "signal {} {}: another thread registered one more action for the signal while the emulation stood at its instruction #{} (registration done: {}): emulation -> {:?}, kernel default -> {:?}",
                            n, if inside { "from inside its own action" } else { "from normal context" }, k, fired, emu, want)));
                        break 'steps;
                    }
                    k += stride;
                }
            }
        }
    }
    let mut nviol = 0;
    let mut seen = std::collections::HashSet::new();
    for (s, d) in bad.iter() {
        if seen.insert(s.clone()) {
            emit_violation("C16", s, d);
            nviol += 1;
        }
    }
    emit(&J::obj()
        .set("type", J::s("summary"))
        .set("workload", J::s("w_default"))
        .set("seed", J::u(seed))
        .set("evaluations", J::u(probes))
        .set("distinct_keys", J::arr(keys.iter().map(|k| J::s(k))))
        .set("samples", J::Arr(rows))
        .set("numbers_probed", J::u(numbers.len() as u64))
        .set("step_trials", J::u(step_trials))
        .set("step_trials_fired", J::u(step_fired))
        .set("violations", J::u(nviol))
        .set("wall_ms", J::u(crate::now_ms() - t0)));
    if nviol == 0 {
        if let Some(r) = inconclusive {
            emit(&J::obj().set("type", J::s("inconclusive")).set("reason", J::s(&r)));
            return 2;
        }
    }
    if nviol > 0 { 1 } else { 0 }
}
