//! w_iter: signal iterators under fire. Decides C09 (no lost signal / wake-up: never in the
//! stable lost state at a quiescent point) and C10 (only real, watched, not-yet-reported
//! deliveries; faithful records in delivery order).
//!
//! Every signal is sent with pthread_sigqueue and a unique sequence number, an independent
//! witness action (registered first, so it runs first in every bracket) records the sequence
//! number and a byte copy of the siginfo of every delivery.

use std::collections::{HashMap, HashSet};
use std::os::unix::io::AsRawFd;
use std::os::unix::net::UnixStream;
use std::sync::atomic::{AtomicBool, AtomicI32, AtomicI64, AtomicU64, Ordering};
use std::sync::Arc;

use libc::{c_int, siginfo_t};
use signal_hook::iterator::backend::{Handle, PollResult, SignalDelivery, SignalIterator};
use signal_hook::iterator::exfiltrator::origin::Origin;
use signal_hook::iterator::exfiltrator::{Exfiltrator, SignalOnly, WithOrigin, WithRawSiginfo};
use signal_hook::iterator::SignalsInfo;
use signal_hook::low_level::siginfo::{Cause, Sent};

use crate::director::{self, ctx, mode, RuleSpec};
use crate::evlog::{self, kind};
use crate::jsonw::{emit, emit_violation, J};
use crate::pool;
use crate::rng::Rng;
use crate::{arg_str, arg_u64, class, site};

// ---- witness: independent record of every delivery
const WIT_N: usize = 1 << 16;
#[repr(C)]
struct WitSlot {
    seq: AtomicU64,
    bytes: std::cell::UnsafeCell<[u8; 128]>,
}
unsafe impl Sync for WitSlot {}
#[allow(clippy::declare_interior_mutable_const)]
const W0: WitSlot = WitSlot { seq: AtomicU64::new(0), bytes: std::cell::UnsafeCell::new([0u8; 128]) };
static WIT: [WitSlot; WIT_N] = [W0; WIT_N];
static WIT_COUNT: AtomicU64 = AtomicU64::new(0);
static OPEN_BRACKETS: AtomicI64 = AtomicI64::new(0);

/// Deliveries that arrived without queued siginfo although every send is a sigqueue: the kernel does that when
/// the user's pending-signal quota (RLIMIT_SIGPENDING) is exhausted - by some other process. Nothing can be
/// concluded from such a run.
static NO_INFO: AtomicU64 = AtomicU64::new(0);

fn witness(info: &siginfo_t) {
    if info.si_code != crate::sig::SI_QUEUE {
        NO_INFO.fetch_add(1, Ordering::SeqCst);
    }
    let seq = crate::sig::si_value(info) as u64;
    let slot = &WIT[(seq as usize) % WIT_N];
    unsafe {
        std::ptr::copy_nonoverlapping(info as *const siginfo_t as *const u8, (*slot.bytes.get()).as_mut_ptr(), 128);
    }
    slot.seq.store(seq, Ordering::SeqCst);
    WIT_COUNT.fetch_add(1, Ordering::SeqCst);
    evlog::log(kind::ACT_BEGIN, info.si_signo as u64, seq);
}

fn observer(s: u32, _a: usize, _b: usize) {
    if s == site::DISPATCH_ENTER {
        OPEN_BRACKETS.fetch_add(1, Ordering::SeqCst);
    } else if s == site::DISPATCH_EXIT {
        OPEN_BRACKETS.fetch_sub(1, Ordering::SeqCst);
    }
}

// ---- what a yielded item tells us
pub trait Describe {
    /// (signal, seq if known, raw bytes if available, problem if the item itself is inconsistent)
    fn describe(&self) -> (c_int, Option<u64>, Option<[u8; 128]>, Option<String>);
}

impl Describe for c_int {
    fn describe(&self) -> (c_int, Option<u64>, Option<[u8; 128]>, Option<String>) {
        (*self, None, None, None)
    }
}

impl Describe for siginfo_t {
    fn describe(&self) -> (c_int, Option<u64>, Option<[u8; 128]>, Option<String>) {
        let mut b = [0u8; 128];
        unsafe { std::ptr::copy_nonoverlapping(self as *const siginfo_t as *const u8, b.as_mut_ptr(), 128) };
        (self.si_signo, Some(crate::sig::si_value(self) as u64), Some(b), None)
    }
}

impl Describe for Origin {
    fn describe(&self) -> (c_int, Option<u64>, Option<[u8; 128]>, Option<String>) {
        let mut problem = None;
        if self.cause != Cause::Sent(Sent::Queue) {
            problem = Some(format!("origin cause {:?} for a signal sent with sigqueue", self.cause));
        }
        match self.process {
            Some(p) => {
                if p.pid != unsafe { libc::getpid() } || p.uid != unsafe { libc::getuid() } {
                    problem = Some(format!("origin process {:?} but sender is pid {} uid {}", p, unsafe { libc::getpid() }, unsafe { libc::getuid() }));
                }
            }
            None => problem = Some("origin without process for a sigqueue'd signal".to_string()),
        }
        (self.signal, None, None, problem)
    }
}

#[derive(Clone, Copy, PartialEq, Debug)]
enum Front {
    Wait,
    Forever,
    /// `for sig in &mut signals { ...; break }` re-entered after every item: each `forever()` is a fresh iterator
    ForeverBreak,
    /// wait(), plus a second, lazily drained `pending()` batch handed to a helper thread (Pending is owned and Send)
    WaitDual,
    Poll,
}

struct Shared {
    consumer_ktid: AtomicI32,
    yields: AtomicU64,
    consumer_done: AtomicBool,
    /// poll mode: number of times the consumer parked after `Pending`
    parks: AtomicU64,
    item_problems: std::sync::Mutex<Vec<String>>,
}

fn note_item<O: Describe>(item: &O, sh: &Shared) {
    let (sig, seq, bytes, problem) = item.describe();
    evlog::log(kind::YIELD, sig as u64, seq.unwrap_or(u64::MAX));
    sh.yields.fetch_add(1, Ordering::SeqCst);
    if let Some(p) = problem {
        sh.item_problems.lock().unwrap().push(p);
    }
    if let (Some(seq), Some(b)) = (seq, bytes) {
        let slot = &WIT[(seq as usize) % WIT_N];
        if slot.seq.load(Ordering::SeqCst) != seq {
            sh.item_problems.lock().unwrap().push(format!("record with seq {} (signal {}) matches no delivery the witness saw", seq, sig));
        } else {
            let w = unsafe { *slot.bytes.get() };
            if w != b {
                let at = (0..128).find(|i| w[*i] != b[*i]).unwrap_or(0);
                sh.item_problems.lock().unwrap().push(format!("record seq {} differs from the delivered siginfo at byte {}", seq, at));
            }
        }
    }
}

fn consumer_wait<E: Exfiltrator>(mut signals: SignalsInfo<E>, front: Front, sh: Arc<Shared>)
where
    E::Output: Describe + Send,
    E::Storage: Sync,
{
    sh.consumer_ktid.store(crate::sig::gettid(), Ordering::SeqCst);
    match front {
        Front::Wait => loop {
            for item in signals.wait() {
                note_item(&item, &sh);
            }
            if signals.is_closed() {
                break;
            }
        },
        Front::ForeverBreak => loop {
            let mut it = signals.forever();
            match it.next() {
                Some(item) => note_item(&item, &sh),
                None => break,
            }
        },
        Front::WaitDual => loop {
            let a = signals.wait();
            let b = signals.pending();
            std::thread::scope(|sc| {
                let sh2 = &sh;
                sc.spawn(move || {
                    crate::set_thread(6, class::CONSUMER);
                    for item in b {
                        note_item(&item, sh2);
                    }
                    director::lib_exit();
                });
                for item in a {
                    note_item(&item, &sh);
                }
            });
            if signals.is_closed() {
                break;
            }
        },
        _ => {
            for item in signals.forever() {
                note_item(&item, &sh);
            }
        }
    }
    director::lib_exit();
    evlog::log(kind::CALL, 20, 0);
    drop(signals);
    evlog::log(kind::RET, 20, 0);
    director::lib_exit();
    director::flush_counts();
    sh.consumer_done.store(true, Ordering::SeqCst);
}

fn consumer_poll<E: Exfiltrator>(mut delivery: SignalDelivery<UnixStream, E>, sh: Arc<Shared>)
where
    E::Output: Describe,
{
    sh.consumer_ktid.store(crate::sig::gettid(), Ordering::SeqCst);
    let fd = delivery.get_read().as_raw_fd();
    unsafe {
        let fl = libc::fcntl(fd, libc::F_GETFL);
        libc::fcntl(fd, libc::F_SETFL, fl | libc::O_NONBLOCK);
    }
    {
        let mut it = SignalIterator::new(&mut delivery);
        let asked = std::cell::Cell::new(0u32);
        let last_false = std::cell::Cell::new(false);
        let mut cb = |r: &mut UnixStream| -> Result<bool, std::io::Error> {
            // like the async adapters: one non-blocking read; "false" means the reactor is armed
            let mut b = [0u8; 1];
            let n = unsafe { libc::read(r.as_raw_fd(), b.as_mut_ptr() as *mut _, 1) };
            let ans = if n > 0 {
                Ok(true)
            } else if n == 0 {
                Ok(false)
            } else {
                let e = std::io::Error::last_os_error();
                match e.raw_os_error() {
                    Some(libc::EAGAIN) | Some(libc::EINTR) => Ok(false),
                    _ => Err(e),
                }
            };
            evlog::log(kind::CB_ASK, 0, match ans { Ok(true) => 1, Ok(false) => 0, Err(_) => 2 });
            asked.set(asked.get() + 1);
            last_false.set(matches!(ans, Ok(false)));
            ans
        };
        loop {
            asked.set(0);
            last_false.set(false);
            match it.poll_signal(&mut cb) {
                PollResult::Signal(item) => note_item(&item, &sh),
                PollResult::Closed => break,
                PollResult::Pending => {
                    sh.parks.fetch_add(1, Ordering::SeqCst);
                    if asked.get() == 0 || !last_false.get() {
                        // an edge-triggered reactor has nothing armed now: the task would sleep forever
                        sh.item_problems.lock().unwrap().push("UNARMED: poll_signal parked the consumer as Pending although its readiness callback did not answer 'nothing available' last in that call".to_string());
                    }
                    // the "reactor": wait for readiness of the read end
                    let mut p = libc::pollfd { fd, events: libc::POLLIN, revents: 0 };
                    unsafe { libc::poll(&mut p, 1, -1) };
                }
                PollResult::Err(e) => {
                    sh.item_problems.lock().unwrap().push(format!("poll_signal returned error {}", e));
                    break;
                }
            }
        }
    }
    director::lib_exit();
    drop(delivery);
    director::lib_exit();
    director::flush_counts();
    sh.consumer_done.store(true, Ordering::SeqCst);
}

fn threads_pending_mask() -> u64 {
    // OR of SigPnd of every thread of this process
    let mut m = 0u64;
    if let Ok(rd) = std::fs::read_dir("/proc/self/task") {
        for e in rd.flatten() {
            if let Ok(s) = std::fs::read_to_string(e.path().join("status")) {
                for l in s.lines() {
                    if let Some(h) = l.strip_prefix("SigPnd:") {
                        m |= u64::from_str_radix(h.trim(), 16).unwrap_or(0);
                    }
                }
            }
        }
    }
    m
}

#[derive(Default)]
struct Tot {
    instances: u64,
    rounds: u64,
    deliveries: u64,
    yields: u64,
    sent: u64,
    stable_points: u64,
    deliveries_nested_on_consumer: u64,
    add_signal_midrun: u64,
    records_compared: u64,
    keys: HashSet<String>,
    samples: Vec<J>,
    bad09: Vec<String>,
    bad10: Vec<String>,
    bad17: Vec<String>,
    inconclusive: Option<String>,
}

struct RoundCheck {
    pos: usize,
    began: HashMap<u64, u64>,
    yielded: HashMap<u64, u64>,
    last_enter: HashMap<u64, usize>,
    last_yield: HashMap<u64, usize>,
    watched_since: HashMap<u64, usize>,
    // per-thread bracket stacks: (sig, enter stamp)
    stacks: HashMap<u32, Vec<(u64, usize)>>,
    // seq -> (sig, enter, exit)
    seq_bracket: HashMap<u64, (u64, usize, usize)>,
    open_seq: HashMap<u32, Vec<u64>>,
    yielded_seqs: HashSet<u64>,
    /// per consuming thread: with two batches of one instance drained by two threads only each thread's own sequence is an order
    last_yielded_seq_of_sig: HashMap<(u32, u64), u64>,
    /// stamp at which add_signal(sig) returned Ok
    ret_stamps: HashMap<u64, usize>,
    /// last time the instance's own action began to store for the signal (EX_STORE stamp of the action that
    /// reached IT_A_STORED)
    last_stored: HashMap<u64, usize>,
    store_began: HashMap<u32, Vec<usize>>,
}

impl RoundCheck {
    fn new() -> Self {
        RoundCheck {
            pos: 0,
            began: HashMap::new(),
            yielded: HashMap::new(),
            last_enter: HashMap::new(),
            last_yield: HashMap::new(),
            watched_since: HashMap::new(),
            stacks: HashMap::new(),
            seq_bracket: HashMap::new(),
            open_seq: HashMap::new(),
            yielded_seqs: HashSet::new(),
            last_yielded_seq_of_sig: HashMap::new(),
            ret_stamps: HashMap::new(),
            last_stored: HashMap::new(),
            store_began: HashMap::new(),
        }
    }

    /// Processes the new part of the log (C10 rules run on every event).
    fn advance(&mut self, evs: &[evlog::Ev], consumer_tid: u32, tot: &mut Tot) {
        for (stamp, e) in evs.iter().enumerate().skip(self.pos) {
            match e.kind {
                k if k == kind::CALL && e.a == 10 => {
                    // add_signal(sig) called: from here on the signal may be yielded
                    self.watched_since.entry(e.b).or_insert(stamp);
                    self.began.insert(e.b, 0);
                }
                k if k == kind::RET && e.a == 10 && (e.b >> 32) == 1 => {
                    self.ret_stamps.entry(e.b & 0xffff_ffff).or_insert(stamp);
                }
                k if k == site::DISPATCH_ENTER => {
                    *self.began.entry(e.a).or_insert(0) += 1;
                    self.last_enter.insert(e.a, stamp);
                    self.stacks.entry(e.tid).or_default().push((e.a, stamp));
                    if e.tid == consumer_tid {
                        tot.deliveries_nested_on_consumer += 1;
                    }
                    tot.deliveries += 1;
                }
                k if k == site::EX_STORE => {
                    // an action of an iterator instance is about to store (the only instance is ours)
                    self.store_began.entry(e.tid).or_default().push(stamp);
                }
                k if k == site::IT_A_STORED => {
                    // ... for signal a. The stamp that counts is the one taken BEFORE the store: the record is visible to
                    // the consumer (and may be yielded) before this thread gets to stamp IT_A_STORED.
                    let began = self.store_began.entry(e.tid).or_default().pop().unwrap_or(stamp);
                    self.last_stored.insert(e.a, began);
                }
                k if k == kind::ACT_BEGIN => {
                    // witness: seq b delivered in the innermost open bracket of this thread
                    self.open_seq.entry(e.tid).or_default().push(e.b);
                    if let Some((sig, enter)) = self.stacks.get(&e.tid).and_then(|s| s.last()) {
                        self.seq_bracket.insert(e.b, (*sig, *enter, usize::MAX));
                    }
                }
                k if k == site::DISPATCH_EXIT => {
                    if let Some((_sig, _enter)) = self.stacks.entry(e.tid).or_default().pop() {
                        if let Some(seq) = self.open_seq.entry(e.tid).or_default().pop() {
                            if let Some(b) = self.seq_bracket.get_mut(&seq) {
                                b.2 = stamp;
                            }
                        }
                    }
                }
                k if k == kind::YIELD => {
                    let sig = e.a;
                    tot.yields += 1;
                    self.last_yield.insert(sig, stamp);
                    match self.watched_since.get(&sig) {
                        None => tot.bad10.push(format!("yielded signal {} which the instance was never asked to watch (stamp {})", sig, stamp)),
                        Some(w) if *w > stamp => tot.bad10.push(format!("yielded signal {} before add_signal for it was called", sig)),
                        _ => {}
                    }
                    let y = self.yielded.entry(sig).or_insert(0);
                    *y += 1;
                    let b = *self.began.get(&sig).unwrap_or(&0);
                    if *y > b {
                        tot.bad10.push(format!(
                            "signal {} yielded {} times by stamp {} but only {} deliveries of it had begun since it was added",
                            sig, *y, stamp, b
                        ));
                    }
                    if e.b != u64::MAX {
                        let seq = e.b;
                        tot.records_compared += 1;
                        if !self.yielded_seqs.insert(seq) {
                            tot.bad10.push(format!("record of delivery seq {} (signal {}) yielded twice", seq, sig));
                        }
                        match self.seq_bracket.get(&seq) {
                            None => tot.bad10.push(format!("record seq {} of signal {} yielded but no such delivery began before (stamp {})", seq, sig, stamp)),
                            Some((bsig, _enter, _exit)) => {
                                if *bsig != sig {
                                    tot.bad10.push(format!("record seq {} yielded as signal {} but was delivered as signal {}", seq, sig, bsig));
                                }
                                if let Some(prev) = self.last_yielded_seq_of_sig.get(&(e.tid, sig)) {
                                    if let (Some(pb), Some(cb)) = (self.seq_bracket.get(prev), self.seq_bracket.get(&seq)) {
                                        // prev was yielded before this one; order violation if this one's delivery
                                        // ended before prev's delivery began
                                        if cb.2 != usize::MAX && cb.2 < pb.1 {
                                            tot.bad10.push(format!(
                                                "records of signal {} out of delivery order: seq {} (delivered {}..{}) yielded after seq {} (delivered {}..)",
                                                sig, seq, cb.1, cb.2, prev, pb.1
                                            ));
                                        }
                                    }
                                }
                                self.last_yielded_seq_of_sig.insert((e.tid, sig), seq);
                            }
                        }
                    }
                }
                _ => {}
            }
        }
        self.pos = evs.len();
    }

    /// C09 at a stable point: every watched signal whose last delivery began after its add_signal
    /// returned must have a yield stamped after the ENTER of that delivery.
    fn stable_check(&self, tot: &mut Tot, label: &str) {
        // whenever the instance's action ran for a signal (also in the middle of an add_signal), a yield must follow
        for (sig, stored) in self.last_stored.iter() {
            let ok = self.last_yield.get(sig).map(|y| *y > *stored).unwrap_or(false);
            if !ok {
                tot.bad09.push(format!(
                    "stable lost state: the instance's action ran for signal {} (its store began at stamp {}) but the consumer is parked with no yield of it afterwards (last yield stamp {:?}) [{}]",
                    sig, stored, self.last_yield.get(sig), label
                ));
            }
        }
        for (sig, enter) in self.last_enter.iter() {
            match self.ret_stamps.get(sig) {
                Some(ret) if *enter > *ret => {}
                _ => continue,
            }
            let ok = self.last_yield.get(sig).map(|y| *y > *enter).unwrap_or(false);
            if !ok {
                // (reported below)
            }
            if !ok {
                tot.bad09.push(format!(
                    "stable lost state: signal {} delivered (last bracket began at stamp {}) but the consumer is parked with no yield of it afterwards (last yield stamp {:?}) [{}]",
                    sig, enter, self.last_yield.get(sig), label
                ));
            }
        }
    }
}

struct ICfg {
    seed: u64,
    rounds: u64,
    pool: Vec<c_int>,
    /// 9 / 10: the run decides only that property (violations of the other one are reported but do not end the run); 0 = both
    focus: u32,
}

enum Inst<E: Exfiltrator> {
    Front(SignalsInfo<E>),
    Poll(SignalDelivery<UnixStream, E>),
}

fn run_instance<E>(exf: E, ename: &str, front: Front, cfg: &ICfg, rng: &mut Rng, tot: &mut Tot)
where
    E: Exfiltrator,
    E::Output: Describe + Send,
    E::Storage: Sync,
{
    director::clear_rules();
    evlog::reset();
    evlog::enable(true);
    let label = format!("{}:{:?}", ename, front);
    // watched set: 2-3 pool signals; one more is added mid-run
    let mut pool_sigs = cfg.pool.clone();
    for i in (1..pool_sigs.len()).rev() {
        let j = rng.below(i as u64 + 1) as usize;
        pool_sigs.swap(i, j);
    }
    let nw = rng.range(2, 3) as usize;
    let watched: Vec<c_int> = pool_sigs[..nw].to_vec();
    let extra = pool_sigs[nw];
    let unwatched = pool_sigs[nw + 1];
    for s in watched.iter() {
        evlog::log(kind::CALL, 10, *s as u64);
    }
    let fds_before = crate::sig::open_fds();
    let (inst, readfd) = match front {
        Front::Poll => {
            let (r, w) = UnixStream::pair().expect("pair");
            let fd = r.as_raw_fd();
            match SignalDelivery::with_pipe(r, w, exf, watched.iter().chain(watched.iter().take(1))) {
                Ok(d) => (Inst::Poll(d), fd),
                Err(e) => {
                    tot.bad10.push(format!("with_pipe failed: {}", e));
                    return;
                }
            }
        }
        // (the first watched number is listed twice: that must not register it twice)
        _ => match SignalsInfo::with_exfiltrator(watched.iter().chain(watched.iter().take(1)), exf) {
            Ok(s) => {
                let after = crate::sig::open_fds();
                let new: Vec<c_int> = after.into_iter().filter(|f| !fds_before.contains(f)).collect();
                if new.len() != 2 {
                    tot.inconclusive = Some(format!("could not identify the instance's fds: {:?}", new));
                    return;
                }
                (Inst::Front(s), new[0])
            }
            Err(e) => {
                tot.bad10.push(format!("Signals::new failed: {}", e));
                return;
            }
        },
    };
    for s in watched.iter() {
        evlog::log(kind::RET, 10, (1u64 << 32) | *s as u64);
    }
    let handle: Handle = match &inst {
        Inst::Front(s) => s.handle(),
        Inst::Poll(d) => d.handle(),
    };
    let sh = Arc::new(Shared {
        consumer_ktid: AtomicI32::new(0),
        yields: AtomicU64::new(0),
        consumer_done: AtomicBool::new(false),
        parks: AtomicU64::new(0),
        item_problems: std::sync::Mutex::new(Vec::new()),
    });
    const CONSUMER_TID: u32 = 5;
    let cj = {
        let sh = sh.clone();
        std::thread::spawn(move || {
            crate::set_thread(CONSUMER_TID, class::CONSUMER);
            director::seed_thread(99);
            pool::add_target(1);
            match inst {
                Inst::Front(s) => consumer_wait(s, front, sh),
                Inst::Poll(d) => consumer_poll(d, sh),
            }
        })
    };
    let stop_v = Arc::new(AtomicBool::new(false));
    let mut vj = Vec::new();
    for v in 0..2u32 {
        let stop_v = stop_v.clone();
        vj.push(std::thread::spawn(move || {
            crate::set_thread(10 + v, class::VICTIM);
            director::seed_thread(7 + v as u64);
            pool::add_target(0);
            if v == 0 {
                pool::victim_spin(&stop_v);
            } else {
                pool::victim_sleep(&stop_v);
            }
            director::flush_counts();
        }));
    }
    // wait until all three are targets and the consumer published its tid
    let t0 = crate::now_ms();
    while pool::N_TARGETS.load(Ordering::SeqCst) < 3 || sh.consumer_ktid.load(Ordering::SeqCst) == 0 {
        std::thread::yield_now();
        if crate::now_ms() - t0 > 10_000 {
            tot.inconclusive = Some("threads did not start".into());
            break;
        }
    }
    let ktid = sh.consumer_ktid.load(Ordering::SeqCst);
    let mut rc = RoundCheck::new();
    let mut consumer_panicked = false;
    let mut added_extra = false;
    let poolmask: u64 = cfg.pool.iter().map(|s| 1u64 << (*s - 1)).sum();
    tot.instances += 1;
    'rounds: for round in 0..cfg.rounds {
        // ---- Director phase
        director::clear_rules();
        let ph = (round + cfg.seed) % 4;
        if ph == 1 || ph == 3 {
            for s in [site::IT_A_STORED, site::EX_STORE, site::PIPE_WAKE, site::IT_FLUSH_BEGIN, site::IT_FLUSH_END, site::IT_SCAN, site::EX_LOAD, site::IT_HAS_BEFORE_READ, site::IT_PS_LOOP, site::IT_PS_ITER_EMPTY, site::IT_PP_CLOSED_CHECKED] {
                director::set_rule(s, RuleSpec { mode: mode::DELAY, p: 6000, max: 300, ..Default::default() });
            }
        }
        if ph >= 2 {
            // a real delivery nested on the consumer at its own critical points
            let csites = [site::IT_FLUSH_BEGIN, site::IT_FLUSH_END, site::IT_SCAN, site::IT_HAS_BEFORE_READ, site::IT_PS_LOOP, site::IT_PS_ITER_EMPTY, site::IT_PP_CLOSED_CHECKED, site::EX_LOAD, site::CH_RECV_CELL_R, site::CH_RECV_TAKEN, site::CH_DEQ_ITER, site::CH_ENQ_ITER];
            let s = csites[((round / 4) as usize) % csites.len()];
            let sig = watched[(round as usize) % watched.len()];
            let spec = RuleSpec {
                mode: mode::RAISE,
                class_mask: class::CONSUMER,
                ctx: ctx::OUTSIDE,
                p: if s == site::IT_SCAN || s == site::EX_LOAD { 1500 } else if s >= site::CH_DEQ_ITER && s <= site::CH_SEND_FULL { 0 } else { 30000 },
                arg: sig as usize,
                a_filter: if s == site::IT_SCAN && round % 2 == 0 { sig as usize } else { usize::MAX },
                budget: 3,
                ..Default::default()
            };
            let spec = if spec.a_filter != usize::MAX { RuleSpec { p: 0, ..spec } } else { spec };
            director::set_rule(s, spec);
        }
        // ---- burst
        let long = round % 5 == 4 || (ph >= 2 && ((round / 4) as usize) % 12 >= 8);
        let k = if long { rng.range(8, 20) } else { rng.range(1, 6) };
        let one_sig = watched[(round as usize) % watched.len()];
        for i in 0..k {
            let sig = if long && rng.chance(7, 8) { one_sig } else if rng.chance(1, 8) { unwatched } else if added_extra && rng.chance(1, 4) { extra } else { *rng.pick(&watched) };
            let tgt = if rng.chance(1, 3) { 0 } else { 1 + rng.below(2) as usize };
            // target index 0 is not necessarily the consumer: look it up by kind
            let n = pool::N_TARGETS.load(Ordering::SeqCst);
            let mut th = 0usize;
            for t in 0..n {
                let is_consumer = pool::TARGET_KIND[t].load(Ordering::SeqCst) == 1;
                if (tgt == 0) == is_consumer {
                    th = pool::TARGETS[t].load(Ordering::SeqCst);
                    if tgt == 0 || rng.chance(1, 2) {
                        break;
                    }
                }
            }
            if th == 0 {
                continue;
            }
            let seq = pool::SEQ.fetch_add(1, Ordering::SeqCst);
            evlog::log(kind::SEND, sig as u64, seq);
            if crate::sig::queue_thread(th as libc::pthread_t, sig, seq as usize) == 0 {
                tot.sent += 1;
            }
            if !added_extra && round >= cfg.rounds / 3 && i == k / 2 {
                evlog::log(kind::CALL, 10, extra as u64);
                // Two threads add the very same signal. The first is frozen right after its registration, before it has
                // recorded the id (IT_ADD_REGISTERED); the second must then either wait for it or see the signal as
                // watched - never register a second action. A real delivery of the signal is also raised on the first
                // thread inside its registration (REG_DONE).
                director::set_rule(site::REG_DONE, RuleSpec { mode: mode::RAISE, class_mask: class::MUTATOR, nth: 1, arg: extra as usize, ..Default::default() });
                director::set_rule(site::IT_ADD_REGISTERED, RuleSpec { mode: mode::PAUSE, class_mask: class::MUTATOR, nth: 1, arg: 2, ..Default::default() });
                let spawn_adder = |tid: u32, h: Handle| {
                    let ktid = Arc::new(AtomicI32::new(0));
                    let k2 = ktid.clone();
                    let j = std::thread::spawn(move || {
                        crate::set_thread(tid, class::MUTATOR);
                        k2.store(crate::sig::gettid(), Ordering::SeqCst);
                        let r = h.add_signal(extra);
                        director::lib_exit();
                        director::flush_counts();
                        r.is_ok()
                    });
                    (j, ktid)
                };
                let (ja, _ka) = spawn_adder(7, handle.clone());
                let tw = crate::now_ms();
                while director::parked(2) != Some(7) && !ja.is_finished() && crate::now_ms() - tw < 5000 {
                    std::thread::yield_now();
                }
                let (jb, kb) = spawn_adder(8, handle.clone());
                // B is either done (it saw the signal as watched, or - wrongly - registered again) or waits for A
                let tw = crate::now_ms();
                loop {
                    if jb.is_finished() {
                        break;
                    }
                    let kt = kb.load(Ordering::SeqCst);
                    let zero = || 0u64;
                    if kt != 0 && crate::probe::stably_blocked_in(kt, &[202], None, 3, 1, &zero) {
                        break;
                    }
                    if crate::now_ms() - tw > 5000 {
                        break;
                    }
                    std::thread::yield_now();
                }
                director::rule_off(site::IT_ADD_REGISTERED);
                director::open_gate(2);
                let r: Result<(), ()> = if ja.join().unwrap_or(false) { Ok(()) } else { Err(()) };
                let twin_ok = jb.join().unwrap_or(false);
                director::close_gate(2);
                if !twin_ok {
                    tot.bad10.push(format!("a concurrent add_signal({}) from a second thread failed [{}]", extra, label));
                }
                director::rule_off(site::REG_DONE);
                evlog::log(kind::RET, 10, ((r.is_ok() as u64) << 32) | extra as u64);
                director::lib_exit();
                added_extra = true;
                tot.add_signal_midrun += 1;
            }
            if rng.chance(1, 3) {
                for _ in 0..rng.below(3000) {
                    std::hint::spin_loop();
                }
            }
        }
        // ---- quiesce: nothing pending, no bracket open, consumer parked with an empty pipe
        let tq = crate::now_ms();
        loop {
            let quiet = threads_pending_mask() & poolmask == 0 && OPEN_BRACKETS.load(Ordering::SeqCst) == 0;
            if quiet && crate::sig::fionread(readfd) == 0 {
                let sysnos: &[i64] = if front == Front::Poll { &[7, 271] } else { &[0, 45] };
                let arg0 = if front == Front::Poll { None } else { Some(readfd as u64) };
                let prog = || sh.yields.load(Ordering::SeqCst) + evlog::len() as u64;
                if crate::probe::stably_blocked_in(ktid, sysnos, arg0, 3, 1, &prog)
                    && threads_pending_mask() & poolmask == 0
                    && OPEN_BRACKETS.load(Ordering::SeqCst) == 0
                    && crate::sig::fionread(readfd) == 0
                {
                    break;
                }
            }
            if sh.consumer_done.load(Ordering::SeqCst) {
                tot.bad09.push(format!("consumer ended although the instance was not closed [{}]", label));
                break 'rounds;
            }
            if cj.is_finished() {
                // the thread is gone without having said "done": it panicked inside the iterator
                consumer_panicked = true;
                tot.bad10.push(format!("the consumer thread panicked inside the iterator (pending/wait/forever/poll must never panic) [{} round {}]", label, round));
                break 'rounds;
            }
            if crate::now_ms() - tq > 3_000 && OPEN_BRACKETS.load(Ordering::SeqCst) != 0 {
                // a delivery that does not come back: the threads of this run cannot be joined any more
                if let Some(m) = director::delivery_stuck(&[]) {
                    emit_violation("C03", "dispatch-spins", &format!("{} [w_iter {} round {}]", m, label, round));
                    emit(&J::obj().set("type", J::s("inconclusive")).set("reason", J::s("a delivery is stuck inside the dispatcher: nothing can be concluded about the iterator")));
                    unsafe { libc::_exit(2) };
                }
            }
            if crate::now_ms() - tq > 20_000 || evlog::OVERFLOW.load(Ordering::SeqCst) {
                // the C10 rules do not need a stable point: run them over what was logged
                let evs = evlog::snapshot();
                rc.advance(&evs, CONSUMER_TID, tot);
                if tot.bad10.is_empty() {
                    tot.inconclusive = Some(format!("no stable point reached within 20 s [{} round {}]", label, round));
                }
                break 'rounds;
            }
            std::thread::yield_now();
        }
        if evlog::OVERFLOW.load(Ordering::SeqCst) {
            break;
        }
        let evs = evlog::snapshot();
        rc.advance(&evs, CONSUMER_TID, tot);
        rc.stable_check(tot, &format!("{} round {}", label, round));
        tot.stable_points += 1;
        tot.rounds += 1;
        // coverage key: what kind of round this was
        let nested = director::nested_at();
        for (s, _) in nested.iter() {
            tot.keys.insert(format!("{}:nested@{}", label, director::site_name(*s)));
        }
        tot.keys.insert(format!("{}:phase{}:burst{}", label, ph, if k > 6 { "long" } else { "short" }));
        // a check that decides only one of the two properties goes on after a violation of the other one
        if (cfg.focus != 10 && !tot.bad09.is_empty()) || (cfg.focus != 9 && !tot.bad10.is_empty()) {
            break;
        }
    }
    for p in sh.item_problems.lock().unwrap().iter().take(3) {
        if p.starts_with("UNARMED") {
            tot.bad09.push(format!("{} [{}]", p, label));
        } else if p.contains("origin") {
            tot.bad17.push(format!("{} [{}]", p, label));
        } else {
            tot.bad10.push(format!("{} [{}]", p, label));
        }
    }
    if tot.samples.len() < 9 {
        tot.samples.push(
            J::obj()
                .set("instance", J::s(&label))
                .set("watched", J::arr(watched.iter().map(|s| J::i(*s as i64))))
                .set("added_midrun", J::i(extra as i64))
                .set("unwatched_but_sent", J::i(unwatched as i64))
                .set("deliveries_per_signal", J::Obj(rc.began.iter().map(|(k, v)| (k.to_string(), J::u(*v))).collect()))
                .set("yields_per_signal", J::Obj(rc.yielded.iter().map(|(k, v)| (k.to_string(), J::u(*v))).collect())),
        );
    }
    // ---- end of instance
    director::clear_rules();
    handle.close();
    let tw = crate::now_ms();
    while !sh.consumer_done.load(Ordering::SeqCst) && !consumer_panicked {
        std::thread::sleep(std::time::Duration::from_millis(1));
        if cj.is_finished() && !sh.consumer_done.load(Ordering::SeqCst) {
            tot.bad10.push(format!("the consumer thread panicked inside the iterator [{}]", label));
            break;
        }
        if crate::now_ms() - tw > 20_000 {
            // decided by w_close (C11); here it only prevents the run from continuing
            tot.inconclusive = Some(format!("consumer did not end after close [{}]", label));
            emit(&J::obj().set("type", J::s("inconclusive")).set("reason", J::s("consumer did not end after close")));
            std::process::exit(2);
        }
    }
    stop_v.store(true, Ordering::SeqCst);
    let _ = cj.join();
    for j in vj {
        let _ = j.join();
    }
    pool::clear_targets();
    evlog::enable(false);
}

pub fn main(args: &[String]) -> i32 {
    let seed = arg_u64(args, "--seed", 1);
    let instances = arg_u64(args, "--instances", 9);
    let rounds = arg_u64(args, "--rounds", 40);
    let only = arg_str(args, "--only", "").to_string();
    crate::set_thread(1, class::MAIN);
    director::seed_thread(seed);
    evlog::init(1 << 21);
    director::install();
    director::set_observer(Some(observer));
    director::LOG_HOOKS.store(1, Ordering::SeqCst);
    crate::ALLOC_WATCH.store(true, Ordering::SeqCst);
    let rt = crate::sig::rtmin();
    // the lowest and the highest signal number belong to the pool (slot 1 and the last slot of the scan)
    let pool_sigs = vec![libc::SIGUSR1, libc::SIGUSR2, rt + 1, rt + 2, rt + 3, libc::SIGHUP, libc::SIGRTMAX()];
    for s in pool_sigs.iter() {
        unsafe { signal_hook_registry::register_sigaction(*s, witness) }.expect("witness register");
    }
    director::lib_exit();
    let cfg = ICfg { seed, rounds, pool: pool_sigs, focus: match arg_str(args, "--focus", "") { "C09" => 9, "C10" => 10, _ => 0 } };
    let mut rng = Rng::new(seed);
    let mut tot = Tot::default();
    let t0 = crate::now_ms();
    for i in 0..instances {
        // 15 combinations (5 front-ends x 3 exfiltrators); the seed only shifts where the rotation starts
        let idx = (i + seed) % 15;
        let front = [Front::Wait, Front::Forever, Front::Poll, Front::ForeverBreak, Front::WaitDual][(idx % 5) as usize];
        let which = idx / 5;
        let name = ["SignalOnly", "WithRawSiginfo", "WithOrigin"][which as usize];
        if !only.is_empty() && !format!("{}:{:?}", name, front).contains(&only) {
            continue;
        }
        match which {
            0 => run_instance(SignalOnly, name, front, &cfg, &mut rng, &mut tot),
            1 => run_instance(WithRawSiginfo, name, front, &cfg, &mut rng, &mut tot),
            _ => run_instance(WithOrigin::default(), name, front, &cfg, &mut rng, &mut tot),
        }
        if (cfg.focus != 10 && !tot.bad09.is_empty()) || (cfg.focus != 9 && !tot.bad10.is_empty()) || tot.inconclusive.is_some() {
            break;
        }
    }
    director::flush_counts();
    director::uninstall();
    if NO_INFO.load(Ordering::SeqCst) > 0 {
        emit(&J::obj().set("type", J::s("inconclusive")).set("reason", J::s(&format!(
            "environment: {} deliveries arrived without queued siginfo (the user's RLIMIT_SIGPENDING quota was exhausted by another process; SigQ now {})",
            NO_INFO.load(Ordering::SeqCst), crate::sig::sigq_usage().map(|(a, b)| format!("{}/{}", a, b)).unwrap_or_default()))));
        return 2;
    }
    let mut nviol = 0;
    for b in tot.bad09.iter().take(4) {
        emit_violation("C09", if b.contains("stable lost") { "stable-lost-signal" } else if b.starts_with("UNARMED") { "pending-without-armed-wakeup" } else { "consumer-ended-early" }, b);
        nviol += 1;
    }
    for b in tot.bad10.iter().take(4) {
        let sig = if b.contains("never asked") || b.contains("before add_signal") { "yielded-unwatched-signal" }
            else if b.contains("deliveries of it had begun") { "more-yields-than-deliveries" }
            else if b.contains("twice") { "record-yielded-twice" }
            else if b.contains("differs") || b.contains("matches no delivery") || b.contains("no such delivery") || b.contains("was delivered as") { "record-not-faithful" }
            else if b.contains("out of delivery order") { "records-out-of-order" }
            else if b.contains("panicked") { "consumer-panicked" }
            else { "iterator-misc" };
        emit_violation("C10", sig, b);
        nviol += 1;
    }
    for b in tot.bad17.iter().take(2) {
        emit_violation("C17", "origin-via-iterator-wrong", b);
        nviol += 1;
    }
    let ah = crate::ALLOC_IN_HANDLER.load(Ordering::SeqCst) + crate::FREE_IN_HANDLER.load(Ordering::SeqCst);
    if ah > 0 {
        emit_violation("C03", "heap-op-inside-dispatch", &format!("{} heap operations happened while a dispatcher was active (w_iter seed {})", ah, seed));
        nviol += 1;
    }
    emit(&J::obj()
        .set("type", J::s("summary"))
        .set("workload", J::s("w_iter"))
        .set("seed", J::u(seed))
        .set("evaluations", J::u(tot.stable_points))
        .set("distinct_keys", J::arr(tot.keys.iter().map(|k| J::s(k))))
        .set("samples", J::Arr(tot.samples.clone()))
        .set("instances", J::u(tot.instances))
        .set("stable_points_checked", J::u(tot.stable_points))
        .set("signals_sent", J::u(tot.sent))
        .set("deliveries", J::u(tot.deliveries))
        .set("yields", J::u(tot.yields))
        .set("records_compared_bytewise", J::u(tot.records_compared))
        .set("deliveries_nested_on_consumer", J::u(tot.deliveries_nested_on_consumer))
        .set("add_signal_midrun", J::u(tot.add_signal_midrun))
        .set("heap_ops_in_handler", J::u(ah))
        .set("violations", J::u(nviol))
        .set("wall_ms", J::u(crate::now_ms() - t0)));
    if nviol == 0 {
        if let Some(r) = tot.inconclusive {
            emit(&J::obj().set("type", J::s("inconclusive")).set("reason", J::s(&r)));
            return 2;
        }
    }
    if nviol > 0 { 1 } else { 0 }
}
