//! w_forbid: every registration entry point x every signal number (C14). One forked child per
//! (entry point, number, context); the child classifies the outcome and checks that after a
//! refusal nothing changed and the library stays usable.

use std::os::unix::io::AsRawFd;
use std::os::unix::net::UnixStream;
use std::panic::{catch_unwind, AssertUnwindSafe};
use std::sync::atomic::{AtomicBool, AtomicUsize, Ordering};
use std::sync::Arc;

use libc::c_int;
use signal_hook::iterator::backend::SignalDelivery;
use signal_hook::iterator::exfiltrator::{SignalOnly, WithOrigin, WithRawSiginfo};
use signal_hook::iterator::{Signals, SignalsInfo};

use crate::fork::{self, End};
use crate::jsonw::{emit, emit_violation, J};
use crate::w_instance::Class;
use crate::arg_u64;

const ENTRIES: [&str; 18] = [
    "registry::register", "registry::register_sigaction", "registry::register_unchecked", "registry::register_signal_unchecked",
    "low_level::register", "flag::register", "flag::register_usize", "flag::register_conditional_shutdown",
    "flag::register_conditional_default", "pipe::register", "pipe::register_raw", "Signals::new",
    "SignalsInfo<WithRawSiginfo>::new", "SignalsInfo<WithOrigin>::new", "Handle::add_signal", "SignalDelivery::with_pipe",
    "Handle::add_signal (closed instance)",
    "SignalsInfo<WithRawSiginfo>: add_signal repeated 40 times",
];

fn kernel_accepts(n: c_int) -> bool {
    // asked of the environment itself (once, in the parent): under valgrind the highest real-time signal is not available
    static OK: std::sync::OnceLock<Vec<bool>> = std::sync::OnceLock::new();
    let v = OK.get_or_init(|| (0..=64).map(crate::sig::settable).collect());
    (0..=64).contains(&n) && v[n as usize]
}

fn expected(entry: usize, n: c_int) -> Class {
    let forbidden = signal_hook::consts::FORBIDDEN.contains(&n);
    match entry {
        2 | 3 => {
            if kernel_accepts(n) { Class::Ok } else { Class::Err }
        }
        8 => {
            if signal_hook::low_level::signal_name(n).is_none() {
                Class::Err
            } else if forbidden {
                Class::Panic
            } else if kernel_accepts(n) {
                Class::Ok
            } else {
                Class::Err
            }
        }
        11..=17 => {
            if n < 0 || n >= 128 || forbidden {
                Class::Panic
            } else if kernel_accepts(n) {
                Class::Ok
            } else {
                Class::Err
            }
        }
        _ => {
            if forbidden {
                Class::Panic
            } else if kernel_accepts(n) {
                Class::Ok
            } else {
                Class::Err
            }
        }
    }
}

static RUNS: AtomicUsize = AtomicUsize::new(0);
static GUARD_DROPS: AtomicUsize = AtomicUsize::new(0);

/// Captured by the would-be actions: the last owner of a companion registration, which its Drop removes (a Drop that calls
/// back into the registry, as the Drop of the last iterator Handle does).
struct ReentrantGuard {
    companion: Option<signal_hook_registry::SigId>,
}

impl ReentrantGuard {
    fn new() -> ReentrantGuard {
        let id = unsafe { signal_hook_registry::register(libc::SIGUSR1, || ()) }.ok();
        ReentrantGuard { companion: id }
    }
    fn touch(&self) {
        RUNS.fetch_add(1, Ordering::SeqCst);
    }
}

impl Drop for ReentrantGuard {
    fn drop(&mut self) {
        if let Some(id) = self.companion.take() {
            signal_hook_registry::unregister(id);
        }
        GUARD_DROPS.fetch_add(1, Ordering::SeqCst);
    }
}
static IT_STORED: AtomicUsize = AtomicUsize::new(0);

fn observer(s: u32, _a: usize, _b: usize) {
    if s == crate::site::IT_A_STORED {
        IT_STORED.fetch_add(1, Ordering::SeqCst);
    }
}

/// Calls entry point `e` with number `n`. Returns (class, resource check closure result):
/// the second value lists problems with resources that must have been released on refusal.
fn call(e: usize, n: c_int, fd0: bool, problems: &mut Vec<String>) -> Class {
    let flag = Arc::new(AtomicBool::new(false));
    let uflag = Arc::new(AtomicUsize::new(0));
    let mut fd_to_check: Option<c_int> = None;
    let mut keep: Vec<Box<dyn std::any::Any>> = Vec::new();
    let mut raw_pipe = [-1; 2];
    if e == 10 {
        unsafe { libc::pipe(raw_pipe.as_mut_ptr()) };
        if fd0 && raw_pipe[0] == 0 {
            // descriptor 0 was free: make the write end the one with number 0
            unsafe {
                let r = libc::dup(raw_pipe[0]);
                libc::close(0);
                let w = libc::dup(raw_pipe[1]);
                libc::close(raw_pipe[1]);
                raw_pipe = [r, w];
            }
        }
    }
    let mut live_mark = 0i64;
    let mut leak_growth = 0i64;
    let guard = if e <= 4 { Some(ReentrantGuard::new()) } else { None };
    let drops0 = GUARD_DROPS.load(Ordering::SeqCst);
    let had_guard = guard.is_some();
    let r = catch_unwind(AssertUnwindSafe(|| -> Result<(), std::io::Error> {
        match e {
            0 => { let g = guard.unwrap(); unsafe { signal_hook_registry::register(n, move || g.touch()) }.map(|_| ()) }
            1 => { let g = guard.unwrap(); unsafe { signal_hook_registry::register_sigaction(n, move |_| g.touch()) }.map(|_| ()) }
            2 => { let g = guard.unwrap(); unsafe { signal_hook_registry::register_unchecked(n, move |_| g.touch()) }.map(|_| ()) }
            3 => { let g = guard.unwrap(); unsafe { signal_hook_registry::register_signal_unchecked(n, move || g.touch()) }.map(|_| ()) }
            4 => { let g = guard.unwrap(); unsafe { signal_hook::low_level::register(n, move || g.touch()) }.map(|_| ()) }
            5 => signal_hook::flag::register(n, flag.clone()).map(|_| ()),
            6 => signal_hook::flag::register_usize(n, uflag.clone(), 5).map(|_| ()),
            7 => signal_hook::flag::register_conditional_shutdown(n, 3, flag.clone()).map(|_| ()),
            8 => signal_hook::flag::register_conditional_default(n, flag.clone()).map(|_| ()),
            9 if SHARED.with(|s| s.borrow().is_some()) => {
                // a clone of a socket that an earlier registration (of another signal) still uses
                let w = SHARED.with(|s| s.borrow().as_ref().unwrap().1.try_clone())?;
                fd_to_check = Some(w.as_raw_fd());
                signal_hook::low_level::pipe::register(n, w).map(|_| ())
            }
            9 => {
                let (a, b) = UnixStream::pair()?;
                // with descriptor 0 free the end that got number 0 is the one handed over
                let (r, w) = if a.as_raw_fd() == 0 { (b, a) } else { (a, b) };
                fd_to_check = Some(w.as_raw_fd());
                keep.push(Box::new(r));
                signal_hook::low_level::pipe::register(n, w).map(|_| ())
            }
            10 => {
                fd_to_check = Some(raw_pipe[1]);
                signal_hook::low_level::pipe::register_raw(n, raw_pipe[1]).map(|_| ())
            }
            // a valid signal first: a refusal in the middle of the list must take the earlier registration back
            11 => Signals::new([libc::SIGWINCH, n]).map(|s| keep.push(Box::new(s))),
            12 => SignalsInfo::<WithRawSiginfo>::new([libc::SIGWINCH, n]).map(|s| keep.push(Box::new(s))),
            13 => SignalsInfo::<WithOrigin>::new([libc::SIGWINCH, n]).map(|s| keep.push(Box::new(s))),
            14 => {
                let s = Signals::new([libc::SIGWINCH])?;
                let r = s.handle().add_signal(n);
                keep.push(Box::new(s));
                r
            }
            17 => {
                // the same refused number again and again on one instance of an exfiltrator with per-signal storage: no attempt
                // may leave anything behind
                let s = SignalsInfo::<WithRawSiginfo>::new([libc::SIGWINCH])?;
                let h = s.handle();
                for i in 0..39 {
                    if i == 2 {
                        live_mark = crate::LIVE_BYTES.load(Ordering::SeqCst);
                    }
                    let _ = catch_unwind(AssertUnwindSafe(|| h.add_signal(n)));
                }
                leak_growth = crate::LIVE_BYTES.load(Ordering::SeqCst) - live_mark;
                let r = h.add_signal(n);
                keep.push(Box::new(s));
                r
            }
            16 => {
                // a closed instance refuses exactly what an open one refuses
                let s = Signals::new([libc::SIGWINCH])?;
                let h = s.handle();
                h.close();
                let r = h.add_signal(n);
                keep.push(Box::new(s));
                r
            }
            _ => {
                let (r, w) = UnixStream::pair()?;
                fd_to_check = Some(w.as_raw_fd());
                SignalDelivery::with_pipe(r, w, SignalOnly, [libc::SIGWINCH, n]).map(|d| keep.push(Box::new(d)))
            }
        }
    }));
    if e == 10 {
        unsafe { libc::close(raw_pipe[0]) };
    }
    let class = match &r {
        Ok(Ok(())) => Class::Ok,
        Ok(Err(_)) => Class::Err,
        Err(_) => Class::Panic,
    };
    if class != Class::Ok && had_guard && GUARD_DROPS.load(Ordering::SeqCst) != drops0 + 1 {
        problems.push(format!("what the refused action captured was dropped {} times (reference not released exactly once)", GUARD_DROPS.load(Ordering::SeqCst) - drops0));
    }
    if class != Class::Ok && leak_growth > 4096 {
        problems.push(format!("repeating the refused add_signal 37 more times left {} more bytes allocated: every refused attempt leaks", leak_growth));
    }
    if class != Class::Ok {
        if Arc::strong_count(&flag) != 1 || Arc::strong_count(&uflag) != 1 {
            problems.push(format!("a refused registration kept a reference to the flag (strong counts {} / {})", Arc::strong_count(&flag), Arc::strong_count(&uflag)));
        }
        if let Some(fd) = fd_to_check {
            if crate::sig::fd_open(fd) {
                problems.push(format!("a refused registration left the handed-over descriptor {} open", fd));
            }
        }
        drop(keep);
    } else {
        // an accepted registration stays alive for the rest of the (short-lived) process: parked, not leaked
        KEPT.with(|k| k.borrow_mut().push(keep));
    }
    class
}

thread_local! {
    /// (read end, write end) of a socket pair whose write end is registered for SIGWINCH (context 1 of pipe::register)
    static SHARED: std::cell::RefCell<Option<(UnixStream, UnixStream)>> = const { std::cell::RefCell::new(None) };
    static KEPT: std::cell::RefCell<Vec<Vec<Box<dyn std::any::Any>>>> = const { std::cell::RefCell::new(Vec::new()) };
}

fn child(e: usize, n: c_int, context: u32, fd: i32) -> i32 {
    let warm = context == 1;
    std::panic::set_hook(Box::new(|_| {}));
    let mut problems = Vec::new();
    // context: other signals registered before
    let witness = Arc::new(AtomicUsize::new(0));
    let wsig = libc::SIGUSR2;
    if warm {
        for s in [libc::SIGHUP, libc::SIGUSR1, libc::SIGALRM, libc::SIGURG, libc::SIGWINCH] {
            let _ = unsafe { signal_hook_registry::register(s, || ()) };
        }
    }
    {
        let w = witness.clone();
        unsafe { signal_hook_registry::register(wsig, move || { w.fetch_add(1, Ordering::SeqCst); }) }.expect("witness");
    }
    if context == 2 {
        // the very same number was registered through an unchecked entry point before (possible for ILL/FPE/SEGV
        // and every ordinary signal): the checked entry points must still refuse the forbidden ones
        let _ = unsafe { signal_hook_registry::register_signal_unchecked(n, || ()) };
    }
    if (11..=17).contains(&e) {
        // these entry points register SIGWINCH first: let the library own that signal already
        let _ = unsafe { signal_hook_registry::register(libc::SIGWINCH, || ()) };
    }
    if e <= 4 {
        // the would-be action's captured guard owns a companion registration on SIGUSR1: the library owns that signal already
        let _ = unsafe { signal_hook_registry::register(libc::SIGUSR1, || ()) };
    }
    if e == 9 && context == 1 {
        // an earlier registration (SIGWINCH) uses a socket; what is handed over below is another clone of that socket
        let _ = unsafe { signal_hook_registry::register(libc::SIGWINCH, || ()) };
        if let Ok((r0, w0)) = UnixStream::pair() {
            if let Ok(c) = w0.try_clone() {
                if signal_hook::low_level::pipe::register(libc::SIGWINCH, c).is_ok() {
                    SHARED.with(|s| *s.borrow_mut() = Some((r0, w0)));
                }
            }
        }
    }
    if context == 3 {
        // a process started with stdin closed: the next descriptor handed out is number 0
        unsafe { libc::close(0) };
    }
    let before: Vec<_> = (1..=64).map(crate::sig::disposition).collect();
    let fds_before = crate::sig::open_fds();
    let class = call(e, n, context == 3, &mut problems);
    if class != Class::Ok {
        let after: Vec<_> = (1..=64).map(crate::sig::disposition).collect();
        if after != before {
            let which: Vec<usize> = (0..64).filter(|i| after[*i] != before[*i]).map(|i| i + 1).collect();
            problems.push(format!("signal dispositions changed by a refused registration: signals {:?}", which));
        }
        if crate::sig::open_fds() != fds_before {
            problems.push(format!("descriptor table changed by a refused registration: {:?} -> {:?}", fds_before, crate::sig::open_fds()));
        }
        // nothing of a refused iterator instance may be left in the registry
        if (11..=17).contains(&e) {
            let s0 = IT_STORED.load(Ordering::SeqCst);
            unsafe { libc::raise(libc::SIGWINCH) };
            if IT_STORED.load(Ordering::SeqCst) != s0 {
                problems.push("an action of the refused iterator instance is still registered (it ran on a later delivery)".to_string());
            }
        }
        // an earlier registration that shares its socket with the refused descriptor still delivers its wake-ups
        let shared_r = SHARED.with(|s| s.borrow().as_ref().map(|p| p.0.as_raw_fd()));
        if let Some(rfd) = shared_r {
            let b0 = crate::sig::fionread(rfd);
            unsafe { libc::raise(libc::SIGWINCH) };
            if crate::sig::fionread(rfd) <= b0 {
                problems.push("an earlier registration whose socket the refused descriptor was a clone of no longer delivers its wake-up byte (the shared socket was shut down)".to_string());
            }
        }
        // previously registered action still runs exactly once per delivery
        let w0 = witness.load(Ordering::SeqCst);
        unsafe { libc::raise(wsig) };
        if witness.load(Ordering::SeqCst) - w0 != 1 {
            problems.push(format!("a previously registered action ran {} times after the refusal", witness.load(Ordering::SeqCst) - w0));
        }
        // the same entry point still works with a valid number
        let r0 = RUNS.load(Ordering::SeqCst);
        let mut p2 = Vec::new();
        let ok_sig = if e == 8 { libc::SIGCHLD } else { libc::SIGUSR1 };
        let c2 = call(e, ok_sig, false, &mut p2);
        if c2 != Class::Ok {
            problems.push(format!("after the refusal, a valid registration through the same entry point gave {:?}", c2));
        } else if e != 7 {
            unsafe { libc::raise(ok_sig) };
            if e <= 4 && RUNS.load(Ordering::SeqCst) - r0 != 1 {
                problems.push("after the refusal, the newly registered valid action did not run once".to_string());
            }
        }
    }
    fork::wr(fd, &format!("CLASS {:?}\n", class));
    for p in problems {
        fork::wr(fd, &format!("BAD {}\n", p));
    }
    fork::wr(fd, "DONE\n");
    0
}

pub fn main(args: &[String]) -> i32 {
    let _ = kernel_accepts(1);
    // replay of a single case in this very process: --one <entry> <number> <context>
    if let Some(i) = args.iter().position(|a| a == "--one") {
        let e: usize = args[i + 1].parse().unwrap_or(0);
        let n: c_int = args[i + 2].parse().unwrap_or(0);
        let c: u32 = args[i + 3].parse().unwrap_or(0);
        crate::director::install();
        crate::director::set_observer(Some(observer));
        return child(e, n, c, 1);
    }
    let seed = arg_u64(args, "--seed", 1);
    crate::director::install();
    crate::director::set_observer(Some(observer));
    let full = crate::has_flag(args, "--full");
    let only_pipe = crate::has_flag(args, "--only-pipe");
    let t0 = crate::now_ms();
    let mut numbers: Vec<c_int> = (-2..=130).collect();
    numbers.extend([i32::MIN, i32::MIN + 1, -129, 255, 256, 65536, i32::MAX]);
    let mut bad: Vec<(String, String)> = Vec::new();
    let mut keys = std::collections::HashSet::new();
    let mut samples = Vec::new();
    let mut probes = 0u64;
    let mut class_counts = [0u64; 3];
    let mut inconclusive = None;
    let forbidden = signal_hook::consts::FORBIDDEN;
    'all: for (e, ename) in ENTRIES.iter().enumerate() {
        if only_pipe && e != 9 && e != 10 && e != 15 {
            continue;
        }
        for (ni, n) in numbers.iter().cloned().enumerate() {
            if only_pipe && !(forbidden.contains(&n) || [0, -1, 32, 65, 70, 128, 10].contains(&n)) {
                continue;
            }
            for context in 0..4u32 {
                let warm = context == 1;
                if context == 3 && e != 9 && e != 10 {
                    continue;
                }
                if context == 2 && !(kernel_accepts(n) || n == libc::SIGILL || n == libc::SIGFPE || n == libc::SIGSEGV) {
                    continue;
                }
                // quick: all entry points x all forbidden, a seeded third of the rest
                if !full && !forbidden.contains(&n) && (ni as u64 + e as u64 + seed + context as u64) % 3 != 0 {
                    continue;
                }
                let res = fork::probe_ex(20_000, false, true, move |fd| child(e, n, context, fd));
                probes += 1;
                let label = format!("{}({}) {}", ename, n, ["in a fresh process", "after 5 other registrations", "after an unchecked registration of the same number", "in a process with descriptor 0 free (the handed-over descriptor is number 0)"][context as usize]);
                let want = expected(e, n);
                match &res.end {
                    End::Exit(0) if res.out.contains("DONE") => {}
                    End::Timeout => {
                        inconclusive = Some(format!("probe timed out: {}", label));
                        continue;
                    }
                    End::Deadlocked(why) => {
                        bad.push((format!("library-wedged-by-refusal:{}", ename), format!("{}: the process deadlocked during / after the refused registration: {} (the refused action's captured state removes a companion registration when it is dropped)", label, why)));
                        continue;
                    }
                    other => {
                        bad.push(("process-died".into(), format!("{}: the process ended with {:?} instead of an ordinary outcome (expected {:?})", label, other, want)));
                        continue;
                    }
                }
                let got = if res.out.contains("CLASS Ok") { Class::Ok } else if res.out.contains("CLASS Err") { Class::Err } else { Class::Panic };
                class_counts[got as usize] += 1;
                if got != want {
                    bad.push((format!("outcome-class:{}", ename), format!("{}: outcome {:?}, expected {:?}", label, got, want)));
                }
                for l in res.out.lines().filter(|l| l.starts_with("BAD ")) {
                    let s = if l.contains("shared socket") { "shared-socket-killed-by-refusal" } else if l.contains("every refused attempt leaks") { "refused-attempt-leaks" } else if l.contains("still registered") { "refused-instance-left-registered" } else if l.contains("dispositions") { "dispositions-changed" } else if l.contains("descriptor") { "descriptor-left-open" }
                        else if l.contains("reference") { "captured-state-not-released" } else if l.contains("previously") { "registry-disturbed" } else { "library-unusable-after-refusal" };
                    bad.push((format!("{}:{}", s, ename), format!("{} || {}", &l[4..], label)));
                }
                keys.insert(format!("{}:{}:{:?}", e, n, got));
                if samples.len() < 8 && (forbidden.contains(&n) || n == 70) && warm && e % 3 == 0 {
                    samples.push(J::s(&format!("{} -> {:?}", label, got)));
                }
                if !bad.is_empty() && !crate::has_flag(args, "--keep-going") {
                    break 'all;
                }
            }
        }
    }
    let mut nviol = 0;
    let mut seen = std::collections::HashSet::new();
    for (s, d) in bad.iter() {
        if seen.insert(s.clone()) && nviol < 12 {
            emit_violation("C14", s, d);
            nviol += 1;
        }
    }
    emit(&J::obj()
        .set("type", J::s("summary"))
        .set("workload", J::s("w_forbid"))
        .set("seed", J::u(seed))
        .set("evaluations", J::u(probes))
        .set("distinct_keys", J::arr(keys.iter().map(|k| J::s(k))))
        .set("samples", J::Arr(samples))
        .set("entry_points", J::u(ENTRIES.len() as u64))
        .set("numbers", J::u(numbers.len() as u64))
        .set("grid_complete", J::Bool(full))
        .set("outcomes_ok", J::u(class_counts[0]))
        .set("outcomes_err", J::u(class_counts[1]))
        .set("outcomes_panic", J::u(class_counts[2]))
        .set("violations", J::u(nviol))
        .set("wall_ms", J::u(crate::now_ms() - t0)));
    if nviol == 0 {
        if let Some(r) = inconclusive {
            emit(&J::obj().set("type", J::s("inconclusive")).set("reason", J::s(&r)));
            return 2;
        }
    }
    if nviol > 0 { 1 } else { 0 }
}
