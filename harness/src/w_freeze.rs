//! w_freeze: dispatch is wait-free with respect to every other thread (C03, part c).
//!
//! Thread A runs one registry / iterator / channel operation and is frozen at a failpoint
//! (every site the operation passes, first two occurrences). Thread B, spinning in user code,
//! then receives one delivery for each built-in action set. Each delivery must reach
//! DISPATCH_EXIT, and the number of failpoints it passes must be one of the counts measured for
//! the same action set with nobody else in the library (no retry loops, no waiting). A delivery
//! that does not come back is examined through /proc: blocked in a system call, or burning CPU
//! inside the bracket, while A is parked = violation (the state is stable by construction).
//! Second variant: the delivery is raised on A itself at the failpoint (nested in the operation).

use std::collections::{BTreeSet, HashMap};
use std::os::unix::io::AsRawFd;
use std::os::unix::net::UnixStream;
use std::sync::atomic::{AtomicBool, AtomicI32, AtomicU64, Ordering};
use std::sync::Arc;

use libc::c_int;
use signal_hook::iterator::exfiltrator::{WithOrigin, WithRawSiginfo};
use signal_hook::iterator::{Signals, SignalsInfo};

use crate::director::{self, ctx, mode, RuleSpec};
use crate::fork::{self, End};
use crate::jsonw::{emit, emit_violation, J};
use crate::pool;
use crate::{arg_u64, class, site};

static B_IN: AtomicU64 = AtomicU64::new(0);
static B_STEPS: AtomicU64 = AtomicU64::new(0);
static B_LAST: AtomicU64 = AtomicU64::new(0);
static B_DONE: AtomicU64 = AtomicU64::new(0);
static A_IN: AtomicU64 = AtomicU64::new(0);
static A_STEPS: AtomicU64 = AtomicU64::new(0);
static A_LAST: AtomicU64 = AtomicU64::new(0);
static A_DONE: AtomicU64 = AtomicU64::new(0);

fn observer(s: u32, _a: usize, _b: usize) {
    let cls = crate::CLASS.with(|c| c.get());
    let (inn, steps, last, done) = if cls & class::VICTIM != 0 {
        (&B_IN, &B_STEPS, &B_LAST, &B_DONE)
    } else if cls & class::MUTATOR != 0 {
        (&A_IN, &A_STEPS, &A_LAST, &A_DONE)
    } else {
        return;
    };
    if s == site::DISPATCH_ENTER {
        if inn.fetch_add(1, Ordering::SeqCst) == 0 {
            steps.store(0, Ordering::SeqCst);
        }
    } else if s == site::DISPATCH_EXIT {
        if inn.fetch_sub(1, Ordering::SeqCst) == 1 {
            last.store(steps.load(Ordering::SeqCst) + 1, Ordering::SeqCst);
            done.fetch_add(1, Ordering::SeqCst);
        }
        return;
    }
    if inn.load(Ordering::SeqCst) > 0 {
        steps.fetch_add(1, Ordering::SeqCst);
    }
}

struct Sets {
    sigs: Vec<(c_int, &'static str)>,
    it1: Signals,
    it2: SignalsInfo<WithRawSiginfo>,
    it3: SignalsInfo<WithOrigin>,
    pipe_r: c_int,
    _sock_r: UnixStream,
}

fn setup_sets() -> Sets {
    let rt = crate::sig::rtmin();
    let flag = Arc::new(AtomicBool::new(false));
    let uflag = Arc::new(std::sync::atomic::AtomicUsize::new(0));
    let never = Arc::new(AtomicBool::new(false));
    let armed = Arc::new(AtomicBool::new(true));
    let mut sigs = Vec::new();
    signal_hook::flag::register(libc::SIGUSR1, flag).unwrap();
    signal_hook::flag::register_usize(libc::SIGUSR1, uflag, 9).unwrap();
    sigs.push((libc::SIGUSR1, "flags"));
    let mut p = [0; 2];
    unsafe { libc::pipe(p.as_mut_ptr()) };
    signal_hook::low_level::pipe::register_raw(libc::SIGUSR2, p[1]).unwrap();
    sigs.push((libc::SIGUSR2, "pipe-write"));
    let (sr, sw) = UnixStream::pair().unwrap();
    sw.set_nonblocking(true).unwrap();
    let junk = [0u8; 4096];
    while unsafe { libc::send(sw.as_raw_fd(), junk.as_ptr() as *const _, junk.len(), libc::MSG_DONTWAIT) } > 0 {}
    sw.set_nonblocking(false).unwrap();
    signal_hook::low_level::pipe::register(libc::SIGHUP, sw).unwrap();
    sigs.push((libc::SIGHUP, "socket-send-full"));
    let it1 = Signals::new([rt + 1]).unwrap();
    sigs.push((rt + 1, "iterator-signal-only"));
    let it2 = SignalsInfo::<WithRawSiginfo>::new([rt + 2]).unwrap();
    sigs.push((rt + 2, "iterator-raw"));
    let it3 = SignalsInfo::<WithOrigin>::new([rt + 3]).unwrap();
    sigs.push((rt + 3, "iterator-origin"));
    signal_hook::flag::register_conditional_shutdown(libc::SIGTERM, 1, never.clone()).unwrap();
    sigs.push((libc::SIGTERM, "shutdown-disarmed"));
    signal_hook::flag::register_conditional_default(libc::SIGWINCH, never).unwrap();
    sigs.push((libc::SIGWINCH, "default-disarmed"));
    signal_hook::flag::register_conditional_default(libc::SIGURG, armed).unwrap();
    sigs.push((libc::SIGURG, "default-armed-ignore-kind"));
    Sets { sigs, it1, it2, it3, pipe_r: p[0], _sock_r: sr }
}

fn drain(sets: &mut Sets) {
    let _ = sets.it1.pending().count();
    let _ = sets.it2.pending().count();
    let _ = sets.it3.pending().count();
    let mut b = [0u8; 256];
    unsafe {
        let fl = libc::fcntl(sets.pipe_r, libc::F_GETFL);
        libc::fcntl(sets.pipe_r, libc::F_SETFL, fl | libc::O_NONBLOCK);
        while libc::read(sets.pipe_r, b.as_mut_ptr() as *mut _, b.len()) > 0 {}
    }
}

const OPS: [&str; 9] = ["first-register", "later-register", "unregister", "unregister-signal", "add-signal", "drop-signals", "wait-pass", "pending-raw", "close"];

const ALL_SITES: [u32; 36] = [
    site::HL_W_LOCKED, site::HL_W_ALLOC, site::HL_W_SWAPPED, site::HL_B_FIRST, site::HL_B_FLIP, site::HL_B_DONE, site::HL_W_FREE, site::HL_W_FREED,
    site::REG_CLONED, site::REG_BEFORE_FALLBACK, site::REG_AFTER_FALLBACK, site::REG_AFTER_SIGACTION, site::REG_BEFORE_PUBLISH, site::REG_DONE,
    site::UNREG_CLONED, site::UNREG_BEFORE_PUBLISH, site::UNREG_DONE,
    site::IT_ADD_LOCKED, site::IT_ADD_REGISTERED, site::IT_DROP_BEGIN, site::IT_HAS_BEFORE_READ, site::IT_FLUSH_BEGIN, site::IT_FLUSH_END,
    site::IT_SCAN, site::EX_LOAD, site::IT_CLOSE_FLAGGED, site::PIPE_WAKE,
    site::CH_DEQ_ITER, site::CH_DEQ_EMPTY, site::CH_RECV_CELL_R, site::CH_RECV_TAKEN, site::CH_ENQ_ITER, site::CH_ENQ_OK,
    site::HL_R_GEN, site::HL_R_PTR, site::HL_R_CLOSE,
];

/// Deliver `sig` to B and wait for the bracket to finish. Err = stuck (verdict) or watchdog.
fn deliver_to_b(b_pth: libc::pthread_t, b_ktid: i32, sig: c_int, parked_desc: &str) -> Result<u64, (bool, String)> {
    let d0 = B_DONE.load(Ordering::SeqCst);
    let cpu0 = crate::probe::thread_cpu_ns(b_pth);
    crate::sig::queue_thread(b_pth, sig, 1);
    let t0 = crate::now_ms();
    loop {
        if B_DONE.load(Ordering::SeqCst) > d0 {
            return Ok(B_LAST.load(Ordering::SeqCst));
        }
        let el = crate::now_ms() - t0;
        if el > 300 {
            let steps = || B_STEPS.load(Ordering::SeqCst) + B_DONE.load(Ordering::SeqCst) * 1000;
            if B_IN.load(Ordering::SeqCst) > 0 {
                if let Some(st) = crate::probe::thread_state(b_ktid) {
                    if (st.state == 'S' || st.state == 'D') && st.syscall.is_some() {
                        let nr = st.syscall.unwrap().0;
                        let arg0: Option<u64> = None;
                        if crate::probe::stably_blocked_in(b_ktid, &[nr], arg0, 10, 10, &steps) {
                            return Err((true, format!("a delivery of signal {} on another thread is blocked in system call {} (202 = futex) inside the dispatcher while {}", sig, nr, parked_desc)));
                        }
                    }
                }
                let burnt = crate::probe::thread_cpu_ns(b_pth).saturating_sub(cpu0);
                if burnt > 2_000_000_000 && B_DONE.load(Ordering::SeqCst) == d0 {
                    return Err((true, format!("a delivery of signal {} on another thread has burnt {} ms of CPU inside the dispatcher ({} failpoints passed) without finishing while {}", sig, burnt / 1_000_000, B_STEPS.load(Ordering::SeqCst), parked_desc)));
                }
            }
            if el > 30_000 {
                return Err((false, format!("delivery of {} neither finished nor reached a stable stuck state", sig)));
            }
        }
        std::hint::spin_loop();
    }
}

fn child(op: usize, nested: bool, quick_stride: u64, seed: u64, out: i32) -> i32 {
    use fork::wr;
    crate::set_thread(1, class::MAIN);
    director::install();
    director::set_observer(Some(observer));
    unsafe { libc::signal(libc::SIGBUS, libc::SIG_DFL) };
    let mut sets = setup_sets();
    let sig_list = sets.sigs.clone();
    let used: BTreeSet<c_int> = sig_list.iter().map(|s| s.0).chain([libc::SIGALRM, libc::SIGCHLD]).collect();
    let mut fresh: Vec<c_int> = (1..=64).filter(|s| !signal_hook_registry::FORBIDDEN.contains(s) && *s != 32 && *s != 33 && !used.contains(s)).collect();
    // B
    let stop = Arc::new(AtomicBool::new(false));
    let b_info = Arc::new((AtomicU64::new(0), AtomicI32::new(0)));
    let (bi, stopb) = (b_info.clone(), stop.clone());
    let bj = std::thread::spawn(move || {
        crate::set_thread(10, class::VICTIM);
        bi.1.store(crate::sig::gettid(), Ordering::SeqCst);
        bi.0.store(unsafe { libc::pthread_self() } as u64, Ordering::SeqCst);
        pool::victim_spin(&stopb);
    });
    while b_info.0.load(Ordering::SeqCst) == 0 {
        std::thread::yield_now();
    }
    let (b_pth, b_ktid) = (b_info.0.load(Ordering::SeqCst) as libc::pthread_t, b_info.1.load(Ordering::SeqCst));
    // ---- baseline: step counts per action set with nobody else in the library (buffers empty .. full)
    let mut baseline: HashMap<c_int, BTreeSet<u64>> = HashMap::new();
    for round in 0..2 {
        for (s, _) in sig_list.iter() {
            for _ in 0..7 {
                match deliver_to_b(b_pth, b_ktid, *s, "nothing else is running (baseline)") {
                    Ok(n) => {
                        baseline.entry(*s).or_default().insert(n);
                    }
                    Err((v, m)) => {
                        wr(out, &format!("{} {}\n", if v { "BAD" } else { "INCONCLUSIVE" }, m));
                        // a delivery may be stuck inside the dispatcher for good: no library call (not even a drop) after this
                        unsafe { libc::_exit(0) };
                    }
                }
            }
        }
        if round == 0 {
            drain(&mut sets);
        }
    }
    drain(&mut sets);
    wr(out, &format!("BASELINE {:?}\n", baseline.iter().map(|(k, v)| (*k, v.iter().cloned().collect::<Vec<_>>())).collect::<Vec<_>>()));
    // ---- sweep
    let mut trials = 0u64;
    let mut reached = 0u64;
    let mut deliveries = 0u64;
    let mut count = 0u64;
    'sweep: for s in ALL_SITES.iter() {
        for occ in 1..=2u64 {
            count += 1;
            if (count + seed) % quick_stride != 0 {
                continue;
            }
            if op == 0 && fresh.is_empty() {
                break 'sweep;
            }
            director::clear_rules();
            drain(&mut sets);
            // ---- per-trial preparation
            let prep_id = unsafe { signal_hook_registry::register(libc::SIGALRM, || ()) }.unwrap();
            let mut inst: Option<Signals> = match op {
                4 => Signals::new(&[] as &[c_int]).ok(),
                5 | 6 | 8 => Signals::new([libc::SIGCHLD]).ok(),
                _ => None,
            };
            if op == 6 {
                unsafe { libc::raise(libc::SIGCHLD) };
            }
            if op == 7 {
                // all five slots outstanding once A holds one of them
                for _ in 0..5 {
                    crate::sig::queue_self(sig_list[4].0, 5);
                }
            }
            let fresh_sig = if op == 0 { fresh.pop().unwrap() } else { 0 };
            // During a first registration, at the points where the library's handler already is the disposition (HL_W_LOCKED is
            // not among them: its two arrivals are the registry lock and the fallback lock, both before sigaction()), the
            // delivery is one of the very signal being registered (it finds no slot yet and must fall through harmlessly).
            let after_takeover = op == 0
                && (matches!(*s, site::REG_AFTER_SIGACTION | site::REG_BEFORE_PUBLISH | site::REG_DONE)
                    || (occ == 2 && matches!(*s, site::HL_W_ALLOC | site::HL_W_SWAPPED | site::HL_B_FIRST | site::HL_B_FLIP | site::HL_B_DONE | site::HL_W_FREE | site::HL_W_FREED)));
            let nested_sig = if after_takeover { fresh_sig } else { sig_list[(trials as usize) % sig_list.len()].0 };
            if nested {
                director::set_rule(*s, RuleSpec { mode: mode::RAISE, class_mask: class::MUTATOR, ctx: ctx::OUTSIDE, nth: occ, arg: nested_sig as usize, ..Default::default() });
            } else {
                director::set_rule(*s, RuleSpec { mode: mode::PAUSE, class_mask: class::MUTATOR, ctx: ctx::OUTSIDE, nth: occ, arg: 0, ..Default::default() });
            }
            let a_done = AtomicBool::new(false);
            let a_ktid = AtomicI32::new(0);
            let a_last0 = A_DONE.load(Ordering::SeqCst);
            let desc = format!("thread A is frozen at {}#{} inside {}", director::site_name(*s), occ, OPS[op]);
            let mut verdict: Option<(bool, String)> = None;
            let mut was_reached = false;
            std::thread::scope(|sc| {
                let setsr = &mut sets;
                let instr = &mut inst;
                let (a_done, a_ktid) = (&a_done, &a_ktid);
                sc.spawn(move || {
                    crate::set_thread(20, class::MUTATOR);
                    a_ktid.store(crate::sig::gettid(), Ordering::SeqCst);
                    match op {
                        0 => {
                            let _ = unsafe { signal_hook_registry::register(fresh_sig, || ()) };
                        }
                        1 => {
                            if let Ok(id) = unsafe { signal_hook_registry::register(libc::SIGALRM, || ()) } {
                                signal_hook_registry::unregister(id);
                            }
                        }
                        2 => {
                            signal_hook_registry::unregister(prep_id);
                        }
                        3 => {
                            #[allow(deprecated)]
                            signal_hook_registry::unregister_signal(libc::SIGALRM);
                        }
                        4 => {
                            if let Some(i) = instr.as_ref() {
                                let _ = i.handle().add_signal(libc::SIGCHLD);
                            }
                        }
                        5 => {
                            *instr = None;
                        }
                        6 => {
                            if let Some(i) = instr.as_mut() {
                                let _ = i.wait().count();
                            }
                        }
                        7 => {
                            let _ = setsr.it2.pending().count();
                        }
                        _ => {
                            if let Some(i) = instr.as_ref() {
                                i.handle().close();
                            }
                        }
                    }
                    director::lib_exit();
                    director::flush_counts();
                    a_done.store(true, Ordering::SeqCst);
                });
                if !nested {
                    // wait for A to park (or finish without reaching the site)
                    let t0 = crate::now_ms();
                    loop {
                        if director::parked(0) == Some(20) {
                            was_reached = true;
                            break;
                        }
                        if a_done.load(Ordering::SeqCst) {
                            break;
                        }
                        if crate::now_ms() - t0 > 10_000 {
                            verdict = Some((false, format!("A neither parked nor finished ({})", desc)));
                            break;
                        }
                        std::thread::yield_now();
                    }
                    if was_reached {
                        let mut list = sig_list.clone();
                        if after_takeover {
                            list.push((fresh_sig, "the signal being registered (no slot yet)"));
                        }
                        for (sg, name) in list.iter() {
                            match deliver_to_b(b_pth, b_ktid, *sg, &desc) {
                                Ok(n) => {
                                    deliveries += 1;
                                    if baseline.contains_key(sg) && !baseline[sg].contains(&n) {
                                        verdict = Some((true, format!("a delivery of {} ({}) passed {} failpoints, without interference it passes {:?}, while {}", sg, name, n, baseline[sg], desc)));
                                        break;
                                    }
                                }
                                Err(e) => {
                                    verdict = Some(e);
                                    break;
                                }
                            }
                        }
                    }
                    director::rule_off(*s);
                    director::open_gate(0);
                }
                // A must finish
                let t0 = crate::now_ms();
                while !a_done.load(Ordering::SeqCst) {
                    std::thread::yield_now();
                    if crate::now_ms() - t0 > 300 && verdict.is_none() {
                        let zero = || A_STEPS.load(Ordering::SeqCst);
                        let kt = a_ktid.load(Ordering::SeqCst);
                        if let Some(st) = crate::probe::thread_state(kt) {
                            if let Some((nr, _)) = st.syscall {
                                if (st.state == 'S' || st.state == 'D') && nr != 0 && nr != 45 && crate::probe::stably_blocked_in(kt, &[nr], None, 10, 10, &zero) {
                                    verdict = Some((true, format!("the operation {} is blocked in system call {} (202 = futex){} at/after {}#{}", OPS[op], nr, if nested { " with a delivery nested on the same thread" } else { "" }, director::site_name(*s), occ)));
                                }
                            }
                        }
                        if crate::now_ms() - t0 > 30_000 {
                            verdict = Some((false, format!("A did not finish ({})", desc)));
                        }
                    }
                    if verdict.is_some() {
                        // cannot join a wedged scoped thread: report and leave
                        let (v, m) = verdict.clone().unwrap();
                        wr(out, &format!("{} {}\n", if v { "BAD" } else { "INCONCLUSIVE" }, m));
                        wr(out, &format!("STATS trials={} reached={} deliveries={}\n", trials, reached, deliveries));
                        unsafe { libc::_exit(0) };
                    }
                }
            });
            director::close_gate(0);
            if nested && A_DONE.load(Ordering::SeqCst) > a_last0 {
                was_reached = true;
                deliveries += 1;
                let n = A_LAST.load(Ordering::SeqCst);
                if baseline.contains_key(&nested_sig) && !baseline[&nested_sig].contains(&n) {
                    verdict = Some((true, format!("a delivery of {} nested on the thread that is inside {} at {}#{} passed {} failpoints, without interference it passes {:?}", nested_sig, OPS[op], director::site_name(*s), occ, n, baseline[&nested_sig])));
                }
            }
            trials += 1;
            if was_reached {
                reached += 1;
                wr(out, &format!("KEY {}:{}:{}#{}\n", OPS[op], if nested { "nested" } else { "frozen" }, director::site_name(*s), occ));
            }
            if let Some((v, m)) = verdict {
                wr(out, &format!("{} {}\n", if v { "BAD" } else { "INCONCLUSIVE" }, m));
                // a delivery may be stuck inside the dispatcher for good: no library call (not even a drop) after this
                unsafe { libc::_exit(0) };
            }
            drop(inst);
            signal_hook_registry::unregister(prep_id);
        }
    }
    stop.store(true, Ordering::SeqCst);
    let _ = bj.join();
    wr(out, &format!("STATS trials={} reached={} deliveries={}\n", trials, reached, deliveries));
    wr(out, "DONE\n");
    0
}

pub fn main(args: &[String]) -> i32 {
    let seed = arg_u64(args, "--seed", 1);
    let stride = arg_u64(args, "--stride", 1).max(1);
    let t0 = crate::now_ms();
    let mut bad: Vec<(String, String)> = Vec::new();
    let mut keys = std::collections::HashSet::new();
    let mut samples = Vec::new();
    let mut tot = [0u64; 3];
    let mut inconclusive = None;
    let mut children = 0u64;
    for op in 0..OPS.len() {
        for nested in [false, true] {
            let res = fork::probe(300_000, false, move |fd| child(op, nested, stride, seed, fd));
            children += 1;
            let label = format!("{} / {}", OPS[op], if nested { "delivery nested on the operating thread" } else { "delivery on another thread, operator frozen" });
            match &res.end {
                End::Exit(0) => {}
                End::Timeout => {
                    // whatever the child reported before it hung still counts
                    if !res.out.contains("BAD ") {
                        inconclusive = Some(format!("{} timed out", label));
                        continue;
                    }
                }
                other => {
                    bad.push(("freeze-child-died".into(), format!("{}: child ended {:?}: {}", label, other, res.out.lines().last().unwrap_or(""))));
                    continue;
                }
            }
            for l in res.out.lines() {
                if let Some(b) = l.strip_prefix("BAD ") {
                    let s = if b.contains("blocked in system call") { "dispatch-blocks" } else if b.contains("burnt") { "dispatch-spins" }
                        else if b.contains("failpoints") { "dispatch-step-count-differs" } else { "freeze-misc" };
                    bad.push((s.into(), format!("{} [{}]", b, label)));
                } else if let Some(i) = l.strip_prefix("INCONCLUSIVE ") {
                    inconclusive = Some(format!("{} [{}]", i, label));
                } else if let Some(k) = l.strip_prefix("KEY ") {
                    keys.insert(k.to_string());
                } else if let Some(st) = l.strip_prefix("STATS ") {
                    for (i, kv) in st.split_whitespace().enumerate() {
                        if let Some(v) = kv.split('=').nth(1).and_then(|v| v.parse::<u64>().ok()) {
                            tot[i.min(2)] += v;
                        }
                    }
                } else if l.starts_with("BASELINE") && samples.len() < 2 {
                    samples.push(J::s(&format!("{}: {}", label, &l[..l.len().min(300)])));
                }
            }
            if !res.out.contains("DONE") && !res.out.contains("BAD") && !res.out.contains("INCONCLUSIVE") {
                inconclusive = Some(format!("{}: child output incomplete", label));
            }
            if !bad.is_empty() && !crate::has_flag(args, "--keep-going") {
                break;
            }
        }
        if !bad.is_empty() && !crate::has_flag(args, "--keep-going") {
            break;
        }
    }
    for k in keys.iter().take(6) {
        samples.push(J::s(k));
    }
    let mut nviol = 0;
    let mut seen = std::collections::HashSet::new();
    for (s, d) in bad.iter() {
        if seen.insert(s.clone()) {
            emit_violation("C03", s, d);
            nviol += 1;
        }
    }
    emit(&J::obj()
        .set("type", J::s("summary"))
        .set("workload", J::s("w_freeze"))
        .set("seed", J::u(seed))
        .set("evaluations", J::u(tot[2]))
        .set("distinct_keys", J::arr(keys.iter().map(|k| J::s(k))))
        .set("samples", J::Arr(samples))
        .set("freeze_children", J::u(children))
        .set("freeze_trials", J::u(tot[0]))
        .set("freeze_sites_reached", J::u(tot[1]))
        .set("freeze_deliveries_checked", J::u(tot[2]))
        .set("violations", J::u(nviol))
        .set("wall_ms", J::u(crate::now_ms() - t0)));
    if nviol == 0 {
        if let Some(r) = inconclusive {
            emit(&J::obj().set("type", J::s("inconclusive")).set("reason", J::s(&r)));
            return 2;
        }
    }
    if nviol > 0 { 1 } else { 0 }
}
