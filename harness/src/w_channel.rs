//! w_channel: native channel workloads for C06 (lossy FIFO), C07 (drop accounting, cell
//! exclusivity by hook log) and C08 (never blocks / panics, nested and parked sweeps).
//!
//! --mode random | nest | starve | park | signal

use std::collections::HashSet;
use std::sync::atomic::{AtomicU64, Ordering};
use std::sync::Arc;

use signal_hook::low_level::channel::Channel;

use crate::director::{self, mode, RuleSpec};
use crate::evlog::{self, kind};
use crate::jsonw::{emit, emit_violation, J};
use crate::p_channel::{self as pc, HistCfg, Val};
use crate::rng::Rng;
use crate::{arg_str, arg_u64, class, site};

thread_local! {
    static ITER_RUN: std::cell::Cell<u64> = const { std::cell::Cell::new(0) };
}
static MAX_ITER_RUN: AtomicU64 = AtomicU64::new(0);

/// Observer: counts consecutive CAS-loop iterations of one thread; a loop that does not end is
/// reported and the process is ended (it would never return).
fn observer(s: u32, _a: usize, _b: usize) {
    if s == site::CH_DEQ_ITER || s == site::CH_ENQ_ITER {
        let n = ITER_RUN.with(|c| {
            let v = c.get() + 1;
            c.set(v);
            v
        });
        if n > 2_000_000 {
            crate::fork::wr(1, "@@ {\"type\":\"violation\",\"property\":\"C08\",\"sig\":\"cas-loop-does-not-terminate\",\"detail\":\"a channel CAS loop ran 2000000 consecutive iterations on one thread\"}\n");
            unsafe { libc::_exit(1) };
        }
        MAX_ITER_RUN.fetch_max(n, Ordering::Relaxed);
    } else {
        ITER_RUN.with(|c| c.set(0));
    }
}

/// Cell-exclusivity rule over the hook log: between CELL_W(i) and FILLED(i) (or CELL_R(i) and
/// TAKEN(i)) of one operation no other cell event on (channel, i) may be stamped.
fn check_cells(evs: &[evlog::Ev]) -> (Vec<String>, u64) {
    let mut bad = Vec::new();
    let mut open: std::collections::HashMap<(u64, u64), (u32, usize, u32)> = std::collections::HashMap::new();
    let mut sections = 0;
    for (stamp, e) in evs.iter().enumerate() {
        match e.kind {
            k if k == site::CH_SEND_CELL_W || k == site::CH_RECV_CELL_R => {
                if let Some((tid, st, k0)) = open.get(&(e.a, e.b)) {
                    bad.push(format!(
                        "cell {} of channel {:#x}: {} by thread {} at stamp {} while thread {} is inside its {} section (since stamp {})",
                        e.b, e.a, director::site_name(k), e.tid, stamp, tid, director::site_name(*k0), st
                    ));
                }
                open.insert((e.a, e.b), (e.tid, stamp, k));
            }
            k if k == site::CH_SEND_FILLED || k == site::CH_RECV_TAKEN => {
                match open.remove(&(e.a, e.b)) {
                    Some((tid, _, _)) if tid == e.tid => sections += 1,
                    Some((tid, st, _)) => bad.push(format!("cell {} section opened by thread {} (stamp {}) closed by thread {}", e.b, tid, st, e.tid)),
                    None => {}
                }
            }
            _ => {}
        }
    }
    (bad, sections)
}

struct Acc {
    histories: u64,
    sends: u64,
    recvs: u64,
    recv_none: u64,
    discarded: u64,
    overlapping: u64,
    nested_ops: u64,
    cell_sections: u64,
    fps: HashSet<u64>,
    samples: Vec<J>,
    bad06: Vec<String>,
    bad07: Vec<String>,
    bad08: Vec<String>,
    inconclusive: Option<String>,
}

fn one_history(cfg: &HistCfg, acc: &mut Acc, label: &str) {
    evlog::reset();
    pc::reset_vals();
    let nest_before = pc::NEST_RAN.load(Ordering::SeqCst);
    let out = pc::run_history(cfg);
    let evs = evlog::snapshot();
    if evlog::OVERFLOW.load(Ordering::SeqCst) {
        return;
    }
    acc.histories += 1;
    for p in out.problems.iter() {
        if p.starts_with("WATCHDOG") {
            acc.inconclusive = Some(p.clone());
        } else if p.starts_with("CAPACITY") {
            acc.bad06.push(format!("{} [{}]", p, label));
        } else {
            acc.bad08.push(format!("{} [{}]", p, label));
        }
    }
    let (bad, st) = pc::check_log(&evs, out.first_val, out.last_val);
    for b in bad {
        if b.contains("dropped") && !b.contains("lost") && !b.contains("discarded") {
            acc.bad07.push(format!("{} [{}]", b, label));
        } else if b.contains("never returned") {
            acc.bad08.push(format!("{} [{}]", b, label));
        } else {
            acc.bad06.push(format!("{} [{}]", b, label));
        }
    }
    let (cb, sections) = check_cells(&evs);
    for b in cb {
        acc.bad07.push(format!("{} [{}]", b, label));
    }
    acc.cell_sections += sections;
    acc.sends += st.sends;
    acc.recvs += st.recvs;
    acc.recv_none += st.recv_none;
    acc.discarded += st.discarded;
    acc.overlapping += st.overlapping_ops;
    acc.nested_ops += st.nested_ops;
    let nontrivial = st.overlapping_ops > 0 || st.nested_ops > 0 || st.discarded > 0;
    if nontrivial && acc.fps.insert(st.fingerprint) && acc.samples.len() < 8 {
        // write the history out: sequence of (tid, op, value) in call order
        let mut ops: Vec<String> = Vec::new();
        for e in evs.iter() {
            if e.kind == kind::CALL && ops.len() < 40 {
                ops.push(format!("t{}:{}({})", e.tid, if e.a == pc::OP_SEND { "send" } else { "recv" }, if e.a == pc::OP_SEND { e.b.to_string() } else { String::new() }));
            } else if e.kind == kind::RET && e.a == pc::OP_RECV && ops.len() < 40 {
                ops.push(format!("t{}:->{}", e.tid, if e.b == pc::NONE { "None".to_string() } else { e.b.to_string() }));
            }
        }
        acc.samples.push(
            J::obj()
                .set("label", J::s(label))
                .set("nested_ran", J::u(pc::NEST_RAN.load(Ordering::SeqCst) - nest_before))
                .set("discarded", J::u(st.discarded))
                .set("history", J::s(&ops.join(" "))),
        );
    }
}

pub fn main(args: &[String]) -> i32 {
    let seed = arg_u64(args, "--seed", 1);
    let md = arg_str(args, "--mode", "random").to_string();
    let n = arg_u64(args, "--histories", 2000);
    let heap = arg_u64(args, "--heap", 1) != 0;
    crate::set_thread(1, class::MAIN);
    director::seed_thread(seed);
    evlog::init(1 << 18);
    evlog::enable(true);
    director::install();
    director::set_observer(Some(observer));
    director::LOG_HOOKS.store(2, Ordering::SeqCst);
    pc::NEST_HEAP.store(heap, Ordering::SeqCst);
    let mut rng = Rng::new(seed);
    let mut acc = Acc {
        histories: 0, sends: 0, recvs: 0, recv_none: 0, discarded: 0, overlapping: 0, nested_ops: 0, cell_sections: 0,
        fps: HashSet::new(), samples: vec![], bad06: vec![], bad07: vec![], bad08: vec![], inconclusive: None,
    };
    let t0 = crate::now_ms();
    let ch_sites = [
        site::CH_DEQ_ITER, site::CH_ENQ_ITER, site::CH_ENQ_OK, site::CH_SEND_CELL_W, site::CH_SEND_FILLED,
        site::CH_RECV_CELL_R, site::CH_RECV_TAKEN, site::CH_DEQ_EMPTY,
    ];
    let mut park_checks = 0u64;
    match md.as_str() {
        "random" => {
            for i in 0..n {
                director::clear_rules();
                if i % 3 != 0 {
                    pc::delay_rules(if i % 3 == 1 { 8192 } else { 30000 }, 150);
                }
                // some histories with a nested op at a random site
                if i % 4 == 3 {
                    pc::NEST_KIND.store(rng.range(1, 7) as u32, Ordering::SeqCst);
                    pc::nest_rule(*rng.pick(&ch_sites), rng.range(1, 6), class::PRODUCER | class::CONSUMER);
                }
                let cfg = HistCfg {
                    producers: rng.range(1, 4) as usize,
                    sends_per: rng.range(3, 10) as usize,
                    consumers: rng.range(1, 3) as usize,
                    recvs_per: rng.range(3, 14) as usize,
                    heap,
                    prefill: rng.below(6) as usize,
                    signal: 0,
                    seed: seed ^ i,
                };
                one_history(&cfg, &mut acc, &format!("random#{} {:?}", i, (cfg.producers, cfg.sends_per, cfg.consumers, cfg.recvs_per, cfg.prefill)));
                if !acc.bad06.is_empty() || !acc.bad07.is_empty() || !acc.bad08.is_empty() {
                    break;
                }
            }
        }
        "nest" => {
            // deterministic sweep: site x occurrence x nested kind x prefill x shape
            let shapes: [(usize, usize, usize, usize); 4] = [(1, 3, 0, 0), (0, 0, 1, 4), (1, 6, 0, 0), (1, 3, 1, 3)];
            let occ_max = arg_u64(args, "--occ", 4);
            let mut count = 0u64;
            'outer: for (si, s) in ch_sites.iter().enumerate() {
                for occ in 1..=occ_max {
                    for nk in 1..=7u32 {
                        for prefill in 0..=5usize {
                            for (shi, sh) in shapes.iter().enumerate() {
                                // the sweep is sharded by seed so that quick runs stay short
                                count += 1;
                                if (count + seed) % (1 + (8 * occ_max * 7 * 6 * 4) / n.max(1)) != 0 {
                                    continue;
                                }
                                director::clear_rules();
                                pc::NEST_KIND.store(nk, Ordering::SeqCst);
                                pc::nest_rule(*s, occ, class::PRODUCER | class::CONSUMER);
                                let cfg = HistCfg { producers: sh.0, sends_per: sh.1, consumers: sh.2, recvs_per: sh.3, heap, prefill, signal: 0, seed };
                                let label = format!("nest site={} occ={} kind={} prefill={} shape={}", director::site_name(*s), occ, nk, prefill, shi);
                                let hits_before = iter_hits();
                                let nest_before = pc::NEST_RAN.load(Ordering::SeqCst);
                                one_history(&cfg, &mut acc, &label);
                                if pc::NEST_PANICS.load(Ordering::SeqCst) > 0 {
                                    acc.bad08.push(format!("nested operation panicked [{}]", label));
                                }
                                // single-threaded shapes: every CAS loop runs once, plus at most one retry per
                                // nested batch (x86 CAS never fails spuriously)
                                if sh.0 + sh.2 == 1 {
                                    let iters = iter_hits() - hits_before;
                                    let nested = pc::NEST_RAN.load(Ordering::SeqCst) - nest_before;
                                    let loops = loops_of_last_history();
                                    if iters > loops + nested {
                                        acc.bad08.push(format!(
                                            "CAS loops ran {} iterations for {} loop executions and {} nested batches (phantom retry) [{}]",
                                            iters, loops, nested, label
                                        ));
                                    }
                                }
                                let _ = si;
                                if !acc.bad06.is_empty() || !acc.bad07.is_empty() || !acc.bad08.is_empty() {
                                    break 'outer;
                                }
                            }
                        }
                    }
                }
            }
        }
        "starve" => {
            // One operation loses the compare-exchange of a queue loop K times in a row: at each of the first K
            // arrivals at the loop head (after the queue was read, before the compare-exchange) a nested batch on
            // the same thread changes that queue. The operation must simply retry until it gets through.
            let shapes: [(usize, usize, usize, usize); 3] = [(1, 1, 0, 0), (0, 0, 1, 1), (1, 2, 1, 2)];
            let mut count = 0u64;
            'outer_s: for s in [site::CH_ENQ_ITER, site::CH_DEQ_ITER] {
                for k in 1..=12u64 {
                    for nk in [1u32, 2, 5, 6] {
                        for prefill in 0..=5usize {
                            for (shi, sh) in shapes.iter().enumerate() {
                                count += 1;
                                if (count + seed) % (1 + (2 * 12 * 4 * 6 * 3) / n.max(1)) != 0 {
                                    continue;
                                }
                                director::clear_rules();
                                pc::NEST_KIND.store(nk, Ordering::SeqCst);
                                director::set_rule(s, RuleSpec {
                                    mode: mode::CALL, nth: 0, budget: k, class_mask: class::PRODUCER | class::CONSUMER,
                                    ctx: director::ctx::ANY, callf: Some(pc::nested_call), ..Default::default()
                                });
                                let cfg = HistCfg { producers: sh.0, sends_per: sh.1, consumers: sh.2, recvs_per: sh.3, heap, prefill, signal: 0, seed };
                                let label = format!("starve site={} losses={} kind={} prefill={} shape={}", director::site_name(s), k, nk, prefill, shi);
                                one_history(&cfg, &mut acc, &label);
                                park_checks += 1;
                                if pc::NEST_PANICS.load(Ordering::SeqCst) > 0 {
                                    acc.bad08.push(format!("nested operation panicked [{}]", label));
                                }
                                if !acc.bad06.is_empty() || !acc.bad07.is_empty() || !acc.bad08.is_empty() {
                                    break 'outer_s;
                                }
                            }
                        }
                    }
                }
            }
        }
        "park" => {
            // K threads parked inside send (holding an index, cell not yet written) or inside recv
            for round in 0..n {
                for k in 1..=5usize {
                    for parked_in_recv in [false, true] {
                        director::clear_rules();
                        evlog::reset();
                        pc::reset_vals();
                        let first_val = pc::NEXT_VAL.load(Ordering::SeqCst);
                        let ch: Arc<Channel<Val>> = Arc::new(Channel::new());
                        let prefill = if parked_in_recv { 5 } else { (round as usize + k) % (6 - k) };
                        for _ in 0..prefill {
                            pc::do_send(&ch, Val::new(heap));
                        }
                        let psite = if parked_in_recv { site::CH_RECV_CELL_R } else { site::CH_SEND_CELL_W };
                        director::set_rule(psite, RuleSpec { mode: mode::PAUSE, class_mask: class::PRODUCER, arg: 0, ..Default::default() });
                        let mut js = Vec::new();
                        for t in 0..k {
                            let ch = ch.clone();
                            js.push(std::thread::spawn(move || {
                                crate::set_thread(10 + t as u32, class::PRODUCER);
                                if parked_in_recv {
                                    pc::do_recv(&ch);
                                } else {
                                    pc::do_send(&ch, Val::new(false));
                                }
                                director::flush_counts();
                            }));
                        }
                        let tw = crate::now_ms();
                        while (director::parked_count(0) as usize) < k {
                            std::thread::yield_now();
                            if crate::now_ms() - tw > 20_000 {
                                acc.inconclusive = Some("park: threads did not reach the pause site".into());
                                break;
                            }
                        }
                        // free thread: operations must finish in one iteration per loop
                        let outstanding = k + if parked_in_recv { prefill - k } else { prefill };
                        director::flush_counts();
                        let before = iter_hits();
                        let id = pc::do_send(&ch, Val::new(heap));
                        director::flush_counts();
                        let send_iters = iter_hits() - before;
                        let expect_discard = outstanding >= 5;
                        let dropped_now = pc::DROPS[id as usize].load(Ordering::SeqCst) == 1;
                        if dropped_now != expect_discard {
                            acc.bad06.push(format!("park k={} recv={} prefill={}: send with {} values outstanding: discarded={} expected {}", k, parked_in_recv, prefill, outstanding, dropped_now, expect_discard));
                        }
                        let exp_iters = if expect_discard { 1 } else { 2 };
                        if send_iters != exp_iters {
                            acc.bad08.push(format!("park k={} recv={}: send took {} CAS-loop iterations with all other threads parked (expected {})", k, parked_in_recv, send_iters, exp_iters));
                        }
                        let before = iter_hits();
                        let r = pc::do_recv(&ch);
                        director::flush_counts();
                        let recv_iters = iter_hits() - before;
                        let in_full = if parked_in_recv { prefill - k } else { prefill } + if expect_discard { 0 } else { 1 };
                        if r.is_some() != (in_full > 0) {
                            acc.bad06.push(format!("park k={} recv={} prefill={}: recv returned {:?} with {} completely sent values inside", k, parked_in_recv, prefill, r, in_full));
                        }
                        let exp_iters = if r.is_some() { 2 } else { 1 };
                        if recv_iters != exp_iters {
                            acc.bad08.push(format!("park k={} recv={}: recv took {} CAS-loop iterations with all other threads parked (expected {})", k, parked_in_recv, recv_iters, exp_iters));
                        }
                        park_checks += 2;
                        director::open_gate(0);
                        for j in js {
                            if j.join().is_err() {
                                acc.bad08.push("parked thread panicked".into());
                            }
                        }
                        director::rule_off(psite);
                        director::close_gate(0);
                        while pc::do_recv(&ch).is_some() {}
                        evlog::log(kind::MARK, 1, 0);
                        drop(ch);
                        let last_val = pc::NEXT_VAL.load(Ordering::SeqCst);
                        let evs = evlog::snapshot();
                        let (bad, st) = pc::check_log(&evs, first_val, last_val);
                        acc.histories += 1;
                        acc.sends += st.sends;
                        acc.recvs += st.recvs;
                        acc.discarded += st.discarded;
                        acc.overlapping += st.overlapping_ops;
                        acc.fps.insert(st.fingerprint ^ ((k as u64) << 50) ^ ((parked_in_recv as u64) << 55) ^ ((prefill as u64) << 58));
                        for b in bad {
                            acc.bad06.push(format!("{} [park k={} recv={}]", b, k, parked_in_recv));
                        }
                        if acc.samples.len() < 6 {
                            acc.samples.push(J::s(&format!("park k={} in_recv={} prefill={} -> send discarded={} iters={}, recv={:?} iters={}", k, parked_in_recv, prefill, dropped_now, send_iters, r, recv_iters)));
                        }
                    }
                }
                if !acc.bad06.is_empty() || !acc.bad08.is_empty() || acc.inconclusive.is_some() {
                    break;
                }
            }
        }
        "signal" => {
            // real deliveries whose action sends on the same channel, aimed at producers and consumers
            let sig = libc::SIGUSR1;
            let _id = unsafe { signal_hook_registry::register(sig, pc::signal_send_action) }.expect("register");
            for i in 0..n {
                director::clear_rules();
                if i % 2 == 1 {
                    pc::delay_rules(16384, 200);
                }
                let cfg = HistCfg {
                    producers: rng.range(1, 3) as usize,
                    sends_per: rng.range(4, 12) as usize,
                    consumers: rng.range(1, 2) as usize,
                    recvs_per: rng.range(6, 30) as usize,
                    heap,
                    prefill: rng.below(4) as usize,
                    signal: sig,
                    seed: seed ^ (i << 8),
                };
                one_history(&cfg, &mut acc, &format!("signal#{}", i));
                if !acc.bad06.is_empty() || !acc.bad07.is_empty() || !acc.bad08.is_empty() || acc.inconclusive.is_some() {
                    break;
                }
            }
        }
        _ => return 3,
    }
    director::flush_counts();
    director::uninstall();
    if pc::NEST_PANICS.load(Ordering::SeqCst) > 0 && acc.bad08.is_empty() {
        acc.bad08.push("a nested channel operation panicked".into());
    }
    let mut nviol = 0;
    for b in acc.bad06.iter().take(4) {
        let sig = if b.contains("FIFO") { "fifo-order" } else if b.contains("twice") { "duplicate" } else if b.contains("never sent") { "invented" }
            else if b.contains("empty") { "empty-although-nonempty" } else if b.contains("discarded although") || b.contains("discarded=") { "unjustified-discard" }
            else if b.contains("lost") { "value-lost" } else if b.contains("CAPACITY") { "capacity-lost" } else { "channel-history" };
        emit_violation("C06", sig, b);
        nviol += 1;
    }
    for b in acc.bad07.iter().take(4) {
        let sig = if b.contains("cell") { "cell-accessed-concurrently" } else { "value-not-dropped-exactly-once" };
        emit_violation("C07", sig, b);
        nviol += 1;
    }
    for b in acc.bad08.iter().take(4) {
        let sig = if b.contains("panicked") { "channel-op-panicked" } else if b.contains("iterations") { "extra-cas-iterations" } else { "channel-op-did-not-return" };
        emit_violation("C08", sig, b);
        nviol += 1;
    }
    let nested_at: Vec<(String, J)> = director::nested_at().iter().map(|(s, n)| (director::site_name(*s).to_string(), J::u(*n))).collect();
    emit(&J::obj()
        .set("type", J::s("summary"))
        .set("workload", J::s("w_channel"))
        .set("mode", J::s(&md))
        .set("seed", J::u(seed))
        .set("evaluations", J::u(acc.histories))
        .set("distinct_keys", J::arr(acc.fps.iter().take(4000).map(|f| J::s(&format!("{:x}", f)))))
        .set("samples", J::Arr(acc.samples.clone()))
        .set("sends", J::u(acc.sends))
        .set("recvs", J::u(acc.recvs))
        .set("recv_none", J::u(acc.recv_none))
        .set("discarded_sends", J::u(acc.discarded))
        .set("overlapping_op_pairs", J::u(acc.overlapping))
        .set("nested_ops", J::u(acc.nested_ops))
        .set("nested_batches_run", J::u(pc::NEST_RAN.load(Ordering::SeqCst)))
        .set("cell_sections_checked", J::u(acc.cell_sections))
        .set("park_checks", J::u(park_checks))
        .set("max_consecutive_cas_iterations", J::u(MAX_ITER_RUN.load(Ordering::SeqCst)))
        .set("dispatches", J::u(director::DISPATCHES.load(Ordering::SeqCst)))
        .set("delivery_nested_at_site", J::Obj(nested_at))
        .set("violations", J::u(nviol))
        .set("wall_ms", J::u(crate::now_ms() - t0)));
    if let Some(r) = acc.inconclusive {
        if nviol == 0 {
            emit(&J::obj().set("type", J::s("inconclusive")).set("reason", J::s(&r)));
            return 2;
        }
    }
    if nviol > 0 { 1 } else { 0 }
}

fn iter_hits() -> u64 {
    director::flush_counts();
    director::SITE_HITS[site::CH_DEQ_ITER as usize].load(Ordering::SeqCst) + director::SITE_HITS[site::CH_ENQ_ITER as usize].load(Ordering::SeqCst)
}

/// Number of CAS loops executed in the history that is in the log (every op, nested or not):
/// send = 1 (+1 if it got a slot), recv = 1 (+1 if it returned a value).
fn loops_of_last_history() -> u64 {
    let evs = evlog::snapshot();
    let mut loops = 5; // Channel::new enqueues the five indices
    for e in evs.iter() {
        if e.kind == site::CH_DEQ_ITER || e.kind == site::CH_ENQ_ITER {
            continue;
        }
        if e.kind == kind::CALL {
            loops += 1;
        }
        if e.kind == site::CH_SEND_CELL_W || e.kind == site::CH_RECV_CELL_R {
            loops += 1;
        }
    }
    loops
}
