//! The hook installed into `signal_hook_registry::verif`: counts, logs, tracks dispatch depth
//! and, per site, optionally injects a delay, a pause, a nested real signal or a call.
//!
//! All state is atomics / const thread-locals: the hook runs inside signal handlers.

use std::cell::Cell;
use std::sync::atomic::{AtomicBool, AtomicPtr, AtomicU32, AtomicU64, AtomicUsize, Ordering};

use crate::evlog;
use crate::site;
use crate::{CLASS, DEPTH};

pub const MAX_SITES: usize = 96;
pub const MAX_THREADS: usize = 64;

pub mod mode {
    pub const OFF: u32 = 0;
    pub const DELAY: u32 = 1;
    pub const PAUSE: u32 = 2;
    pub const RAISE: u32 = 3;
    pub const CALL: u32 = 4;
    pub const YIELD: u32 = 5;
}

pub mod ctx {
    pub const ANY: u32 = 0;
    pub const OUTSIDE: u32 = 1; // only when no library dispatcher is active on this thread
    pub const INSIDE: u32 = 2; // only inside a dispatcher
}

pub struct Rule {
    pub mode: AtomicU32,
    pub class_mask: AtomicU32,
    pub ctx: AtomicU32,
    /// Fire at the `nth` matching arrival (1-based); 0 = at every arrival.
    pub nth: AtomicU64,
    pub arrivals: AtomicU64,
    pub fired: AtomicU64,
    /// DELAY: probability (out of 65536) and max spin count. PAUSE: gate index in `arg`.
    /// RAISE: signal in `arg`, seq base in `arg2`. CALL: fn pointer in `arg`.
    pub p: AtomicU32,
    pub max: AtomicU32,
    pub arg: AtomicUsize,
    pub arg2: AtomicUsize,
    /// CALL: the function (kept as a pointer so that Miri keeps its provenance).
    pub callf: AtomicPtr<()>,
    /// Optional filter on the `a` argument of the point (usize::MAX = none).
    pub a_filter: AtomicUsize,
    /// RAISE/CALL/PAUSE: stop firing after this many firings (0 = unlimited).
    pub budget: AtomicU64,
}

#[allow(clippy::declare_interior_mutable_const)]
const RULE0: Rule = Rule {
    mode: AtomicU32::new(0),
    class_mask: AtomicU32::new(!0),
    ctx: AtomicU32::new(0),
    nth: AtomicU64::new(0),
    arrivals: AtomicU64::new(0),
    fired: AtomicU64::new(0),
    p: AtomicU32::new(0),
    max: AtomicU32::new(0),
    arg: AtomicUsize::new(0),
    arg2: AtomicUsize::new(0),
    callf: AtomicPtr::new(std::ptr::null_mut()),
    a_filter: AtomicUsize::new(usize::MAX),
    budget: AtomicU64::new(0),
};
pub static RULES: [Rule; MAX_SITES] = [RULE0; MAX_SITES];

pub const MAX_GATES: usize = 16;
#[allow(clippy::declare_interior_mutable_const)]
const A32: AtomicU32 = AtomicU32::new(0);
/// 0 = closed, 1 = open.
pub static GATES: [AtomicU32; MAX_GATES] = [A32; MAX_GATES];
/// tid+1 of the thread parked at the gate (0 = nobody), and the site it is parked at.
pub static PARKED: [AtomicU32; MAX_GATES] = [A32; MAX_GATES];
pub static PARKED_SITE: [AtomicU32; MAX_GATES] = [A32; MAX_GATES];
/// How many threads are parked at the gate right now.
pub static PARKED_COUNT: [AtomicU32; MAX_GATES] = [A32; MAX_GATES];

#[allow(clippy::declare_interior_mutable_const)]
const A64: AtomicU64 = AtomicU64::new(0);
/// Global per-site hit counters (flushed from thread-locals by `flush_counts`).
pub static SITE_HITS: [AtomicU64; MAX_SITES] = [A64; MAX_SITES];
/// Per-thread published "last site" (for overlap coverage); 0 = outside the library.
pub static LAST_SITE: [AtomicU32; MAX_THREADS] = [A32; MAX_THREADS];
/// Overlap pairs seen: PAIRS[mine * MAX_SITES + theirs] != 0.
pub static PAIRS: [AtomicU32; MAX_SITES * MAX_SITES] = [A32; MAX_SITES * MAX_SITES];
/// Nested deliveries per site: a dispatcher started on a thread whose last site was s.
pub static NESTED_AT: [AtomicU64; MAX_SITES] = [A64; MAX_SITES];

/// 0 = hook events are not logged, 1 = only DISPATCH_ENTER/EXIT, EX_STORE and IT_A_STORED, 2 = all sites.
pub static LOG_HOOKS: AtomicU32 = AtomicU32::new(0);
pub static OBSERVER: AtomicPtr<()> = AtomicPtr::new(std::ptr::null_mut());
pub static COVER: AtomicBool = AtomicBool::new(false);
pub static N_THREADS: AtomicU32 = AtomicU32::new(0);

/// Max hook points seen inside one outermost dispatch bracket, and the number of brackets.
pub static MAX_DISPATCH_STEPS: AtomicU64 = AtomicU64::new(0);
/// per harness thread: id (>0) of the outermost dispatch bracket that is open on it right now
pub static OPEN_BRACKET: [AtomicU64; MAX_THREADS] = [A64; MAX_THREADS];

/// "A delivery does not complete": some harness thread has had the same dispatch bracket open for the whole
/// observation window while its CPU clock advanced by >= 2 s (it is not parked by the Director: callers make sure no
/// PAUSE rule is active), or while it sat blocked in a system call. Decided on the thread's own CPU time and kernel
/// state, not on wall time. Returns a description.
pub fn delivery_stuck(ktids: &[(u32, i32)]) -> Option<String> {
    for t in 1..MAX_THREADS {
        let b0 = OPEN_BRACKET[t].load(Ordering::SeqCst);
        let pth = crate::THREAD_PTH[t].load(Ordering::SeqCst);
        if b0 == 0 || pth == 0 {
            continue;
        }
        let cpu0 = crate::probe::thread_cpu_ns(pth as libc::pthread_t);
        let mut burnt = 0;
        let mut same = true;
        for _ in 0..30 {
            std::thread::sleep(std::time::Duration::from_millis(100));
            if OPEN_BRACKET[t].load(Ordering::SeqCst) != b0 {
                same = false;
                break;
            }
            burnt = crate::probe::thread_cpu_ns(pth as libc::pthread_t).saturating_sub(cpu0);
            if burnt > 2_000_000_000 {
                break;
            }
        }
        if !same {
            continue;
        }
        if burnt > 2_000_000_000 {
            return Some(format!("thread {} has been inside one dispatch bracket while burning {} ms of its own CPU time: the delivery spins instead of completing", t, burnt / 1_000_000));
        }
        if let Some((_, kt)) = ktids.iter().find(|(ht, _)| *ht as usize == t) {
            let zero = || OPEN_BRACKET[t].load(Ordering::SeqCst);
            if let Some(st) = crate::probe::thread_state(*kt) {
                if let Some((nr, _)) = st.syscall {
                    if (st.state == 'S' || st.state == 'D') && crate::probe::stably_blocked_in(*kt, &[nr], None, 10, 10, &zero) && OPEN_BRACKET[t].load(Ordering::SeqCst) == b0 {
                        return Some(format!("thread {} is blocked in system call {} inside a dispatch bracket: the delivery waits instead of completing", t, nr));
                    }
                }
            }
        }
    }
    None
}
pub static DISPATCHES: AtomicU64 = AtomicU64::new(0);
pub static NESTED_DISPATCHES: AtomicU64 = AtomicU64::new(0);
pub static RAISE_SEQ: AtomicU64 = AtomicU64::new(1 << 40);

thread_local! {
    static STEPS: Cell<u64> = const { Cell::new(0) };
    static ENTER_STEPS: Cell<u64> = const { Cell::new(0) };
    static IN_ACTION: Cell<u32> = const { Cell::new(0) };
    static RNG: Cell<u64> = const { Cell::new(0x9E3779B97F4A7C15) };
    static MY_LAST: Cell<u32> = const { Cell::new(0) };
    static LOCAL_HITS: [Cell<u64>; MAX_SITES] = const { [const { Cell::new(0) }; MAX_SITES] };
}

pub fn seed_thread(seed: u64) {
    RNG.with(|r| r.set(seed | 1));
}

#[inline]
fn rnd() -> u64 {
    RNG.with(|r| {
        let mut x = r.get();
        x ^= x << 13;
        x ^= x >> 7;
        x ^= x << 17;
        r.set(x);
        x
    })
}

pub fn steps() -> u64 {
    STEPS.with(|s| s.get())
}

/// Marks the calling thread as outside the library (for overlap coverage).
#[inline]
pub fn lib_exit() {
    let t = crate::tid() as usize;
    if t != 0 && t < MAX_THREADS {
        LAST_SITE[t].store(0, Ordering::Relaxed);
    }
    MY_LAST.with(|m| m.set(0));
}

/// Adds this thread's local site counters to the global ones (call at thread end / quiescence,
/// outside handlers).
pub fn flush_counts() {
    LOCAL_HITS.with(|h| {
        for (i, c) in h.iter().enumerate() {
            let v = c.replace(0);
            if v != 0 {
                SITE_HITS[i].fetch_add(v, Ordering::Relaxed);
            }
        }
    });
}

pub fn set_observer(f: Option<CallFn>) {
    OBSERVER.store(f.map(|f| f as *mut ()).unwrap_or(std::ptr::null_mut()), Ordering::SeqCst);
}

pub fn install() {
    signal_hook_registry::verif::set_hook(Some(hook));
}

pub fn uninstall() {
    signal_hook_registry::verif::set_hook(None);
}

pub fn clear_rules() {
    for r in RULES.iter() {
        r.mode.store(0, Ordering::SeqCst);
        r.class_mask.store(!0, Ordering::SeqCst);
        r.ctx.store(0, Ordering::SeqCst);
        r.nth.store(0, Ordering::SeqCst);
        r.arrivals.store(0, Ordering::SeqCst);
        r.fired.store(0, Ordering::SeqCst);
        r.a_filter.store(usize::MAX, Ordering::SeqCst);
    }
    for g in 0..MAX_GATES {
        GATES[g].store(0, Ordering::SeqCst);
        PARKED[g].store(0, Ordering::SeqCst);
    }
}

pub struct RuleSpec {
    pub mode: u32,
    pub class_mask: u32,
    pub ctx: u32,
    pub nth: u64,
    pub p: u32,
    pub max: u32,
    pub arg: usize,
    pub arg2: usize,
    pub callf: Option<CallFn>,
    pub a_filter: usize,
    pub budget: u64,
}

impl Default for RuleSpec {
    fn default() -> Self {
        RuleSpec {
            mode: 0,
            class_mask: !0,
            ctx: 0,
            nth: 0,
            p: 0,
            max: 0,
            arg: 0,
            arg2: 0,
            callf: None,
            a_filter: usize::MAX,
            budget: 0,
        }
    }
}

pub fn set_rule(site: u32, s: RuleSpec) {
    let r = &RULES[site as usize];
    r.mode.store(0, Ordering::SeqCst);
    r.class_mask.store(s.class_mask, Ordering::SeqCst);
    r.ctx.store(s.ctx, Ordering::SeqCst);
    r.nth.store(s.nth, Ordering::SeqCst);
    r.arrivals.store(0, Ordering::SeqCst);
    r.fired.store(0, Ordering::SeqCst);
    r.p.store(s.p, Ordering::SeqCst);
    r.max.store(s.max, Ordering::SeqCst);
    r.arg.store(s.arg, Ordering::SeqCst);
    r.arg2.store(s.arg2, Ordering::SeqCst);
    r.callf.store(s.callf.map(|f| f as *mut ()).unwrap_or(std::ptr::null_mut()), Ordering::SeqCst);
    r.a_filter.store(s.a_filter, Ordering::SeqCst);
    r.budget.store(s.budget, Ordering::SeqCst);
    r.mode.store(s.mode, Ordering::SeqCst);
}

/// Number of outermost dispatch brackets entered so far (all threads).
pub fn dispatches() -> u64 {
    DISPATCHES.load(Ordering::SeqCst)
}

pub fn rule_off(site: u32) {
    RULES[site as usize].mode.store(0, Ordering::SeqCst);
}

pub fn fired(site: u32) -> u64 {
    RULES[site as usize].fired.load(Ordering::SeqCst)
}

pub fn parked_count(g: usize) -> u32 {
    PARKED_COUNT[g].load(Ordering::SeqCst)
}

pub fn open_gate(g: usize) {
    GATES[g].store(1, Ordering::SeqCst);
}

pub fn close_gate(g: usize) {
    PARKED[g].store(0, Ordering::SeqCst);
    GATES[g].store(0, Ordering::SeqCst);
}

/// tid of the thread parked at gate g, if any.
pub fn parked(g: usize) -> Option<u32> {
    match PARKED[g].load(Ordering::SeqCst) {
        0 => None,
        t => Some(t - 1),
    }
}

#[inline]
fn spin_delay(n: u32) {
    for i in 0..n {
        std::hint::spin_loop();
        if i % 64 == 63 {
            unsafe { libc::sched_yield() };
        }
    }
}

pub type CallFn = fn(u32, usize, usize);

fn hook(s: u32, a: usize, b: usize) {
    // instructions of the harness's own hook are not counted by the instruction stepper
    crate::istep::IN_HOOK.with(|h| h.set(h.get() + 1));
    hook_inner(s, a, b);
    crate::istep::IN_HOOK.with(|h| h.set(h.get().saturating_sub(1)));
}

#[inline(never)]
fn hook_inner(s: u32, a: usize, b: usize) {
    let si = s as usize;
    if si >= MAX_SITES {
        return;
    }
    crate::istep::on_hook(s, a, b);
    // ---- bookkeeping
    if s == site::DISPATCH_ENTER {
        let d = DEPTH.with(|d| {
            let v = d.get();
            d.set(v + 1);
            v
        });
        if d == 0 {
            ENTER_STEPS.with(|e| e.set(STEPS.with(|s| s.get())));
            let n = DISPATCHES.fetch_add(1, Ordering::Relaxed);
            let t = crate::tid() as usize;
            if t != 0 && t < MAX_THREADS {
                OPEN_BRACKET[t].store(n + 1, Ordering::Relaxed);
            }
        } else {
            NESTED_DISPATCHES.fetch_add(1, Ordering::Relaxed);
        }
        let last = MY_LAST.with(|m| m.get()) as usize;
        if last != 0 && last < MAX_SITES {
            NESTED_AT[last].fetch_add(1, Ordering::Relaxed);
        }
    }
    STEPS.with(|c| c.set(c.get() + 1));
    LOCAL_HITS.with(|h| h[si].set(h[si].get() + 1));
    match LOG_HOOKS.load(Ordering::Relaxed) {
        0 => {}
        1 => {
            if s == site::DISPATCH_ENTER || s == site::DISPATCH_EXIT || s == site::IT_A_STORED || s == site::EX_STORE {
                evlog::log(s, a as u64, b as u64);
            }
        }
        _ => {
            evlog::log(s, a as u64, b as u64);
        }
    }
    if COVER.load(Ordering::Relaxed) {
        let t = crate::tid() as usize;
        if t != 0 && t < MAX_THREADS {
            LAST_SITE[t].store(s, Ordering::Relaxed);
            let n = (N_THREADS.load(Ordering::Relaxed) as usize).min(MAX_THREADS - 1);
            for o in 1..=n {
                if o != t {
                    let theirs = LAST_SITE[o].load(Ordering::Relaxed) as usize;
                    if theirs != 0 && theirs < MAX_SITES {
                        let cell = &PAIRS[si * MAX_SITES + theirs];
                        if cell.load(Ordering::Relaxed) == 0 {
                            cell.store(1, Ordering::Relaxed);
                        }
                    }
                }
            }
        }
    }
    // Remember the last non-dispatcher site for "nested at" accounting (only at depth 0).
    if DEPTH.with(|d| d.get()) == 0 {
        MY_LAST.with(|m| m.set(s));
    }

    // ---- workload-specific observer (must be async-signal-safe)
    let o = OBSERVER.load(Ordering::Relaxed);
    if !o.is_null() {
        let f: CallFn = unsafe { std::mem::transmute::<*mut (), CallFn>(o) };
        f(s, a, b);
    }

    // ---- rules
    let r = &RULES[si];
    let m = r.mode.load(Ordering::Relaxed);
    if m != mode::OFF && IN_ACTION.with(|i| i.get()) == 0 {
        apply(r, m, s, a, b);
    }

    if s == site::DISPATCH_EXIT {
        let d = DEPTH.with(|d| {
            let v = d.get().saturating_sub(1);
            d.set(v);
            v
        });
        if d == 0 {
            let t = crate::tid() as usize;
            if t != 0 && t < MAX_THREADS {
                OPEN_BRACKET[t].store(0, Ordering::Relaxed);
            }
            // informational only: the thread-local counters are updated non-atomically and a nested
            // delivery inside the hook can make them go backwards
            let st = STEPS.with(|s| s.get()).saturating_sub(ENTER_STEPS.with(|e| e.get()));
            MAX_DISPATCH_STEPS.fetch_max(st, Ordering::Relaxed);
        }
    }
}

#[inline(never)]
fn apply(r: &Rule, m: u32, s: u32, a: usize, b: usize) {
    let cls = CLASS.with(|c| c.get());
    if r.class_mask.load(Ordering::Relaxed) & cls == 0 {
        return;
    }
    let d = DEPTH.with(|d| d.get());
    match r.ctx.load(Ordering::Relaxed) {
        ctx::OUTSIDE if d > 0 => return,
        ctx::INSIDE if d == 0 => return,
        _ => {}
    }
    let af = r.a_filter.load(Ordering::Relaxed);
    if af != usize::MAX && af != a {
        return;
    }
    // Probability gate (p = 0 means always).
    let p = r.p.load(Ordering::Relaxed) as u64;
    let x = rnd();
    if p != 0 && (x & 0xffff) >= p {
        return;
    }
    match m {
        mode::DELAY => {
            let max = r.max.load(Ordering::Relaxed).max(1) as u64;
            spin_delay(((x >> 16) % max) as u32);
            r.fired.fetch_add(1, Ordering::Relaxed);
        }
        mode::YIELD => {
            std::thread::yield_now();
            r.fired.fetch_add(1, Ordering::Relaxed);
        }
        _ => {
            let nth = r.nth.load(Ordering::Relaxed);
            let arr = r.arrivals.fetch_add(1, Ordering::SeqCst) + 1;
            if nth != 0 && arr != nth {
                return;
            }
            let budget = r.budget.load(Ordering::Relaxed);
            if budget != 0 && r.fired.load(Ordering::SeqCst) >= budget {
                return;
            }
            match m {
                mode::PAUSE => {
                    let g = r.arg.load(Ordering::Relaxed) % MAX_GATES;
                    r.fired.fetch_add(1, Ordering::SeqCst);
                    PARKED_SITE[g].store(s, Ordering::SeqCst);
                    PARKED[g].store(crate::tid() + 1, Ordering::SeqCst);
                    PARKED_COUNT[g].fetch_add(1, Ordering::SeqCst);
                    let mut i = 0u32;
                    while GATES[g].load(Ordering::SeqCst) == 0 {
                        i = i.wrapping_add(1);
                        if i % 32 == 0 {
                            unsafe { libc::sched_yield() };
                        } else {
                            std::hint::spin_loop();
                        }
                    }
                    PARKED_COUNT[g].fetch_sub(1, Ordering::SeqCst);
                    PARKED[g].store(0, Ordering::SeqCst);
                }
                mode::RAISE => {
                    let sig = r.arg.load(Ordering::Relaxed) as libc::c_int;
                    let seq = crate::pool::SEQ.fetch_add(1, Ordering::SeqCst);
                    IN_ACTION.with(|i| i.set(i.get() + 1));
                    evlog::log(evlog::kind::SEND, sig as u64, seq);
                    let rc = crate::sig::queue_self(sig, seq as usize);
                    IN_ACTION.with(|i| i.set(i.get() - 1));
                    if rc == 0 {
                        r.fired.fetch_add(1, Ordering::SeqCst);
                    }
                }
                mode::CALL => {
                    let f = r.callf.load(Ordering::Relaxed);
                    if !f.is_null() {
                        let f: CallFn = unsafe { std::mem::transmute::<*mut (), CallFn>(f) };
                        IN_ACTION.with(|i| i.set(i.get() + 1));
                        r.fired.fetch_add(1, Ordering::SeqCst);
                        f(s, a, b);
                        IN_ACTION.with(|i| i.set(i.get() - 1));
                    }
                }
                _ => {}
            }
        }
    }
}

/// Number of distinct (site, site) overlap pairs observed so far.
pub fn overlap_pairs() -> Vec<(u32, u32)> {
    let mut v = Vec::new();
    for i in 0..MAX_SITES {
        for j in 0..MAX_SITES {
            if PAIRS[i * MAX_SITES + j].load(Ordering::Relaxed) != 0 {
                v.push((i as u32, j as u32));
            }
        }
    }
    v
}

pub fn site_hits() -> Vec<(u32, u64)> {
    (0..MAX_SITES)
        .filter_map(|i| {
            let v = SITE_HITS[i].load(Ordering::Relaxed);
            if v != 0 {
                Some((i as u32, v))
            } else {
                None
            }
        })
        .collect()
}

pub fn nested_at() -> Vec<(u32, u64)> {
    (0..MAX_SITES)
        .filter_map(|i| {
            let v = NESTED_AT[i].load(Ordering::Relaxed);
            if v != 0 {
                Some((i as u32, v))
            } else {
                None
            }
        })
        .collect()
}

pub fn site_name(s: u32) -> &'static str {
    use site::*;
    match s {
        HL_R_GEN => "HL_R_GEN",
        HL_R_INC => "HL_R_INC",
        HL_R_PTR => "HL_R_PTR",
        HL_R_CLOSE => "HL_R_CLOSE",
        HL_W_LOCKED => "HL_W_LOCKED",
        HL_W_ALLOC => "HL_W_ALLOC",
        HL_W_SWAPPED => "HL_W_SWAPPED",
        HL_B_FIRST => "HL_B_FIRST",
        HL_B_FLIP => "HL_B_FLIP",
        HL_B_SPIN => "HL_B_SPIN",
        HL_B_DONE => "HL_B_DONE",
        HL_W_FREE => "HL_W_FREE",
        HL_W_FREED => "HL_W_FREED",
        DISPATCH_ENTER => "DISPATCH_ENTER",
        DISPATCH_EXIT => "DISPATCH_EXIT",
        D_AFTER_FALLBACK_READ => "D_AFTER_FALLBACK_READ",
        D_AFTER_DATA_READ => "D_AFTER_DATA_READ",
        D_BEFORE_PREV => "D_BEFORE_PREV",
        D_BEFORE_ACTION => "D_BEFORE_ACTION",
        D_FALLBACK_PREV => "D_FALLBACK_PREV",
        REG_CLONED => "REG_CLONED",
        REG_BEFORE_FALLBACK => "REG_BEFORE_FALLBACK",
        REG_AFTER_FALLBACK => "REG_AFTER_FALLBACK",
        REG_AFTER_SIGACTION => "REG_AFTER_SIGACTION",
        REG_BEFORE_PUBLISH => "REG_BEFORE_PUBLISH",
        REG_DONE => "REG_DONE",
        UNREG_CLONED => "UNREG_CLONED",
        UNREG_BEFORE_PUBLISH => "UNREG_BEFORE_PUBLISH",
        UNREG_DONE => "UNREG_DONE",
        CH_DEQ_ITER => "CH_DEQ_ITER",
        CH_DEQ_OK => "CH_DEQ_OK",
        CH_DEQ_EMPTY => "CH_DEQ_EMPTY",
        CH_ENQ_ITER => "CH_ENQ_ITER",
        CH_ENQ_OK => "CH_ENQ_OK",
        CH_SEND_CELL_W => "CH_SEND_CELL_W",
        CH_SEND_FILLED => "CH_SEND_FILLED",
        CH_RECV_CELL_R => "CH_RECV_CELL_R",
        CH_RECV_TAKEN => "CH_RECV_TAKEN",
        CH_SEND_FULL => "CH_SEND_FULL",
        IT_A_STORED => "IT_A_STORED",
        IT_A_WOKEN => "IT_A_WOKEN",
        IT_FLUSH_BEGIN => "IT_FLUSH_BEGIN",
        IT_FLUSH_END => "IT_FLUSH_END",
        IT_SCAN => "IT_SCAN",
        IT_PP_CLOSED_CHECKED => "IT_PP_CLOSED_CHECKED",
        IT_PP_ASKED => "IT_PP_ASKED",
        IT_PS_LOOP => "IT_PS_LOOP",
        IT_PS_ITER_EMPTY => "IT_PS_ITER_EMPTY",
        IT_CLOSE_FLAGGED => "IT_CLOSE_FLAGGED",
        IT_ADD_LOCKED => "IT_ADD_LOCKED",
        IT_ADD_REGISTERED => "IT_ADD_REGISTERED",
        IT_DROP_BEGIN => "IT_DROP_BEGIN",
        IT_HAS_BEFORE_READ => "IT_HAS_BEFORE_READ",
        PIPE_WAKE => "PIPE_WAKE",
        EX_LOAD => "EX_LOAD",
        EX_STORE => "EX_STORE",
        _ => "?",
    }
}
