//! w_pipe: the self-pipe wake (C13). One forked child per (descriptor kind, fill level); the
//! child registers the write end, delivers bursts synchronously and checks: exactly one wake
//! attempt per delivery (hook count), bytes seen <= deliveries and >= 1 after a drain, the
//! descriptor is closed exactly when the action is removed / the registration is rejected and
//! never written afterwards. A child that does not come back is inspected by the parent: blocked
//! in write/sendto = the delivery blocked on a full descriptor.

use std::os::unix::io::{FromRawFd, IntoRawFd};
use std::os::unix::net::{UnixDatagram, UnixStream};
use std::panic::{catch_unwind, AssertUnwindSafe};
use std::sync::atomic::{AtomicU64, Ordering};

use libc::c_int;

use crate::director;
use crate::jsonw::{emit, emit_violation, J};
use crate::{arg_u64, class, site};

static WAKES: AtomicU64 = AtomicU64::new(0);
static WAKE_FD: AtomicU64 = AtomicU64::new(0);

fn observer(s: u32, a: usize, _b: usize) {
    if s == site::PIPE_WAKE {
        WAKES.fetch_add(1, Ordering::SeqCst);
        WAKE_FD.store(a as u64, Ordering::SeqCst);
    }
}

const KINDS: [&str; 5] = ["pipe", "unix-stream", "unix-datagram", "raw-blocking-pipe", "raw-nonblocking-pipe"];
const FILLS: [&str; 3] = ["empty", "half", "full"];

fn set_nonblock(fd: c_int, on: bool) {
    unsafe {
        let fl = libc::fcntl(fd, libc::F_GETFL);
        libc::fcntl(fd, libc::F_SETFL, if on { fl | libc::O_NONBLOCK } else { fl & !libc::O_NONBLOCK });
    }
}

/// Reads everything available (non-blocking); returns number of bytes.
fn drain(fd: c_int) -> usize {
    set_nonblock(fd, true);
    let mut total = 0;
    let mut buf = [0u8; 4096];
    loop {
        let n = unsafe { libc::recv(fd, buf.as_mut_ptr() as *mut _, buf.len(), libc::MSG_DONTWAIT) };
        let n = if n < 0 && std::io::Error::last_os_error().raw_os_error() == Some(libc::ENOTSOCK) {
            unsafe { libc::read(fd, buf.as_mut_ptr() as *mut _, buf.len()) }
        } else {
            n
        };
        if n < 0 {
            break;
        }
        if n == 0 {
            // zero-length datagram or EOF: for datagrams go on, for EOF stop
            let mut p = libc::pollfd { fd, events: libc::POLLIN, revents: 0 };
            if unsafe { libc::poll(&mut p, 1, 0) } <= 0 || p.revents & libc::POLLIN == 0 {
                break;
            }
            continue;
        }
        total += n as usize;
    }
    total
}

/// Fills the write end until EAGAIN; returns bytes written.
fn fill(wfd: c_int, datagram: bool, fraction_half: bool) -> usize {
    set_nonblock(wfd, true);
    let chunk = if datagram { vec![b'F'; 1] } else { vec![b'F'; 1024] };
    let mut total = 0usize;
    loop {
        let n = unsafe { libc::write(wfd, chunk.as_ptr() as *const _, chunk.len()) };
        if n <= 0 {
            break;
        }
        total += n as usize;
        if total > 64 << 20 {
            break;
        }
    }
    let _ = fraction_half;
    total
}

fn scenario(kind: usize, fillk: usize, out_fd: i32) -> i32 {
    use crate::fork::wr;
    std::panic::set_hook(Box::new(|_| {}));
    let sig = libc::SIGUSR1;
    let bad = |m: String| wr(out_fd, &format!("BAD {}\n", m));
    // keep the library's handler in place from the start
    let _keep = unsafe { signal_hook_registry::register(sig, || ()) }.unwrap();
    let (rfd, wfd): (c_int, c_int) = match kind {
        1 => {
            let (r, w) = UnixStream::pair().unwrap();
            (r.into_raw_fd(), w.into_raw_fd())
        }
        2 => {
            let (r, w) = UnixDatagram::pair().unwrap();
            (r.into_raw_fd(), w.into_raw_fd())
        }
        _ => {
            let mut fds = [0; 2];
            unsafe { libc::pipe(fds.as_mut_ptr()) };
            (fds[0], fds[1])
        }
    };
    // fill level
    let mut prefilled = 0usize;
    if fillk > 0 {
        prefilled = fill(wfd, kind == 2, fillk == 1);
        if fillk == 1 {
            // half: read back about half of it
            set_nonblock(rfd, true);
            let mut got = 0usize;
            let mut buf = [0u8; 1024];
            while got < prefilled / 2 {
                let n = unsafe { libc::read(rfd, buf.as_mut_ptr() as *mut _, if kind == 2 { 1 } else { buf.len() }) };
                if n <= 0 {
                    break;
                }
                got += n as usize;
            }
            prefilled -= got;
        }
    }
    // blocking / non-blocking at hand-over
    // only the last kind hands over a non-blocking descriptor: the library must not rely on the caller
    set_nonblock(wfd, kind == 4);
    let baseline_fds = crate::sig::open_fds();
    // ---- register; one delivery arrives on this thread the moment the action is in the registry (still inside the
    // library's registration function): it must not block either, whatever the function still has to do to the descriptor
    director::set_rule(site::REG_DONE, director::RuleSpec { mode: director::mode::RAISE, class_mask: class::MAIN, nth: 1, arg: sig as usize, ..Default::default() });
    wr(out_fd, "REGISTER with a delivery at the moment of publication\n");
    let id = match kind {
        0 | 3 | 4 => signal_hook::low_level::pipe::register_raw(sig, wfd),
        1 => signal_hook::low_level::pipe::register(sig, unsafe { UnixStream::from_raw_fd(wfd) }),
        _ => signal_hook::low_level::pipe::register(sig, unsafe { UnixDatagram::from_raw_fd(wfd) }),
    };
    let id = match id {
        Ok(id) => id,
        Err(e) => {
            bad(format!("registration of a valid descriptor failed: {}", e));
            return 0;
        }
    };
    director::clear_rules();
    if !crate::sig::fd_open(wfd) {
        bad("descriptor closed while the action is registered".into());
    }
    wr(out_fd, &format!("WFD {}\n", wfd));
    // ---- bursts
    let mut since_drain = WAKES.load(Ordering::SeqCst).min(1);
    let mut unread = prefilled;
    for burst in [1u64, 7, 1, 1000, 3] {
        wr(out_fd, &format!("BURST {}\n", burst));
        for i in 0..burst {
            let w0 = WAKES.load(Ordering::SeqCst);
            // whatever errno the interrupted code left behind (an interrupted poll, a failed write of its own) is none of
            // the handler's business
            unsafe { *libc::__errno_location() = [libc::EINTR, 0, libc::EAGAIN, libc::EPIPE][(i % 4) as usize] };
            unsafe { libc::raise(sig) };
            let dw = WAKES.load(Ordering::SeqCst) - w0;
            if dw != 1 {
                bad(format!("a delivery made {} wake attempts (expected exactly 1)", dw));
                break;
            }
            if WAKE_FD.load(Ordering::SeqCst) != wfd as u64 {
                bad(format!("wake attempt on descriptor {} instead of {}", WAKE_FD.load(Ordering::SeqCst), wfd));
            }
        }
        since_drain += burst;
        if fillk != 2 || burst == 1000 {
            // the reader drains: bytes <= (what was in there) + deliveries, and >= 1 new byte unless it was full
            let got = drain(rfd);
            let max = unread as u64 + since_drain;
            if got as u64 > max {
                bad(format!("reader saw {} bytes but only {} were there before plus {} deliveries", got, unread, since_drain));
            }
            if (got as u64) < unread as u64 + 1 && fillk != 2 {
                bad(format!("reader saw {} bytes after {} deliveries on a descriptor with room ({} bytes were there before)", got, since_drain, unread));
            }
            unread = 0;
            since_drain = 0;
        }
    }
    // after a drain the next delivery must be visible again, also in the "full" scenario
    drain(rfd);
    unsafe { libc::raise(sig) };
    let got = drain(rfd);
    if got != 1 {
        bad(format!("after a complete drain one delivery produced {} bytes", got));
    }
    // ---- unregister: closed exactly once, never written afterwards
    let ok = signal_hook::low_level::unregister(id);
    if !ok {
        bad("unregister returned false".into());
    }
    if crate::sig::fd_open(wfd) {
        bad(format!("descriptor {} still open after the action was removed", wfd));
    }
    // re-use the number: a second close by the library would hit this descriptor
    let reuse = unsafe { libc::dup(rfd) };
    let w0 = WAKES.load(Ordering::SeqCst);
    for _ in 0..5 {
        unsafe { libc::raise(sig) };
    }
    if WAKES.load(Ordering::SeqCst) != w0 {
        bad("a wake was attempted after the action had been removed".into());
    }
    let id2 = unsafe { signal_hook_registry::register(sig, || ()) }.unwrap();
    signal_hook_registry::unregister(id2);
    if reuse >= 0 && !crate::sig::fd_open(reuse) {
        bad(format!("descriptor number {} (re-used by the application) was closed again by the library", reuse));
    }
    if reuse >= 0 {
        unsafe { libc::close(reuse) };
    }
    unsafe { libc::close(rfd) };
    // ---- rejected registrations: descriptor must be closed, nothing registered
    for (what, badsig) in [("forbidden signal", libc::SIGKILL), ("forbidden signal", libc::SIGSEGV), ("signal 0", 0), ("signal 65", 65), ("signal -1", -1)] {
        let mut fds = [0; 2];
        unsafe { libc::pipe(fds.as_mut_ptr()) };
        let w = fds[1];
        let r = catch_unwind(AssertUnwindSafe(|| signal_hook::low_level::pipe::register_raw(badsig, w)));
        if matches!(r, Ok(Ok(_))) {
            bad(format!("registration for {} was accepted", what));
        }
        if crate::sig::fd_open(w) {
            bad(format!("descriptor left open after a registration rejected for {} ({})", what, badsig));
            unsafe { libc::close(w) };
        }
        unsafe { libc::close(fds[0]) };
    }
    // invalid descriptors: refused, and nothing registered
    for badfd in [wfd, 9999] {
        let w0 = WAKES.load(Ordering::SeqCst);
        let r = catch_unwind(AssertUnwindSafe(|| signal_hook::low_level::pipe::register_raw(sig, badfd)));
        match r {
            Ok(Ok(id)) => {
                bad(format!("registration of the invalid descriptor {} was accepted", badfd));
                signal_hook::low_level::unregister(id);
            }
            Ok(Err(_)) => {}
            Err(_) => bad(format!("registration of the invalid descriptor {} panicked", badfd)),
        }
        unsafe { libc::raise(sig) };
        if WAKES.load(Ordering::SeqCst) != w0 {
            bad("a rejected registration still wakes".into());
        }
    }
    // ---- the reader goes away while the registration stays: the wake-up fails for good (EPIPE) and is simply given up
    {
        wr(out_fd, "READER-GONE a registered pipe whose read end is closed\n");
        let mut fds = [0; 2];
        unsafe { libc::pipe(fds.as_mut_ptr()) };
        match signal_hook::low_level::pipe::register_raw(sig, fds[1]) {
            Ok(id) => {
                unsafe { libc::close(fds[0]) };
                for _ in 0..3 {
                    let w0 = WAKES.load(Ordering::SeqCst);
                    unsafe { libc::raise(sig) };
                    let dw = WAKES.load(Ordering::SeqCst) - w0;
                    if dw != 1 {
                        bad(format!("a delivery made {} wake attempts on a pipe without reader (expected exactly 1)", dw));
                    }
                }
                signal_hook::low_level::unregister(id);
            }
            Err(e) => {
                bad(format!("registration of a valid descriptor failed: {}", e));
                unsafe {
                    libc::close(fds[0]);
                }
            }
        }
    }
    // ---- one pipe registered for two signals through duplicated descriptors; the first registration is removed, the pipe
    //      is full at the next delivery of the other signal: that delivery must not block either
    {
        wr(out_fd, "DUP-SHARED one full pipe registered twice through dup(), first registration removed\n");
        let other = libc::SIGUSR2;
        let _keep2 = unsafe { signal_hook_registry::register(other, || ()) };
        let mut fds = [0; 2];
        unsafe { libc::pipe(fds.as_mut_ptr()) };
        let w2 = unsafe { libc::dup(fds[1]) };
        let a = signal_hook::low_level::pipe::register_raw(sig, fds[1]);
        let b = signal_hook::low_level::pipe::register_raw(other, w2);
        if let (Ok(a), Ok(b)) = (a, b) {
            // fill it completely through a third descriptor in non-blocking mode (the mode is shared by all of them)
            let junk = [0u8; 4096];
            while unsafe { libc::write(w2, junk.as_ptr() as *const _, junk.len()) } > 0 {}
            while unsafe { libc::write(w2, junk.as_ptr() as *const _, 1) } > 0 {}
            signal_hook::low_level::unregister(a);
            let w0 = WAKES.load(Ordering::SeqCst);
            unsafe { libc::raise(other) };
            if WAKES.load(Ordering::SeqCst) - w0 != 1 {
                bad("a delivery on the remaining registration of a dup-shared pipe did not make exactly one wake attempt".into());
            }
            signal_hook::low_level::unregister(b);
        } else {
            bad("registration of a valid (duplicated) descriptor failed".into());
        }
        unsafe { libc::close(fds[0]) };
    }
    let end_fds = crate::sig::open_fds();
    let expect: Vec<c_int> = baseline_fds.iter().cloned().filter(|f| *f != wfd && *f != rfd).collect();
    if end_fds != expect {
        bad(format!("descriptor table at the end {:?}, expected {:?}", end_fds, expect));
    }
    wr(out_fd, "DONE\n");
    0
}

/// register/unregister cycles with descriptor-number reuse
fn cycles(n: u64, out_fd: i32) -> i32 {
    use crate::fork::wr;
    let sig = libc::SIGUSR2;
    let _keep = unsafe { signal_hook_registry::register(sig, || ()) }.unwrap();
    let base = crate::sig::open_fds();
    for i in 0..n {
        let mut fds = [0; 2];
        unsafe { libc::pipe(fds.as_mut_ptr()) };
        let id = match signal_hook::low_level::pipe::register_raw(sig, fds[1]) {
            Ok(id) => id,
            Err(e) => {
                wr(out_fd, &format!("BAD cycle {}: register failed {}\n", i, e));
                return 0;
            }
        };
        let w0 = WAKES.load(Ordering::SeqCst);
        unsafe { libc::raise(sig) };
        if WAKES.load(Ordering::SeqCst) - w0 != 1 || drain(fds[0]) != 1 {
            wr(out_fd, &format!("BAD cycle {}: one delivery, {} wake attempts\n", i, WAKES.load(Ordering::SeqCst) - w0));
        }
        signal_hook::low_level::unregister(id);
        if crate::sig::fd_open(fds[1]) {
            wr(out_fd, &format!("BAD cycle {}: descriptor {} open after unregister\n", i, fds[1]));
            unsafe { libc::close(fds[1]) };
        }
        unsafe { libc::close(fds[0]) };
    }
    if crate::sig::open_fds() != base {
        wr(out_fd, &format!("BAD descriptor table grew over {} cycles: {:?} -> {:?}\n", n, base, crate::sig::open_fds()));
    }
    wr(out_fd, "DONE\n");
    0
}

pub fn main(args: &[String]) -> i32 {
    let seed = arg_u64(args, "--seed", 1);
    let ncycles = arg_u64(args, "--cycles", 2000);
    crate::set_thread(1, class::MAIN);
    director::install();
    director::set_observer(Some(observer));
    let t0 = crate::now_ms();
    let mut bad: Vec<(String, String)> = Vec::new();
    let mut keys = std::collections::HashSet::new();
    let mut samples = Vec::new();
    let mut n = 0u64;
    let mut inconclusive = None;
    for kind in 0..KINDS.len() {
        for fillk in 0..FILLS.len() {
            let label = format!("{} / {}", KINDS[kind], FILLS[fillk]);
            // own watchdog: a child blocked in write/sendto inside the handler is the violation
            let mut fds = [0i32; 2];
            unsafe { libc::pipe(fds.as_mut_ptr()) };
            let pid = unsafe { libc::fork() };
            if pid == 0 {
                unsafe { libc::close(fds[0]) };
                let c = scenario(kind, fillk, fds[1]);
                unsafe { libc::_exit(c) };
            }
            unsafe { libc::close(fds[1]) };
            let tstart = crate::now_ms();
            let mut status = 0;
            let mut ended = false;
            let mut blocked_in = None;
            let mut spinning: Option<u64> = None;
            loop {
                let r = unsafe { libc::waitpid(pid, &mut status, libc::WNOHANG) };
                if r == pid {
                    ended = true;
                    break;
                }
                let el = crate::now_ms() - tstart;
                if el > 3_000 {
                    // stable? same syscall on 10 samples
                    let mut same = 0;
                    let mut last = String::new();
                    for _ in 0..10 {
                        let s = std::fs::read_to_string(format!("/proc/{}/syscall", pid)).unwrap_or_default();
                        let key: String = s.split_whitespace().take(2).collect::<Vec<_>>().join(" ");
                        if key == last {
                            same += 1;
                        }
                        last = key;
                        std::thread::sleep(std::time::Duration::from_millis(20));
                    }
                    let st = std::fs::read_to_string(format!("/proc/{}/stat", pid)).unwrap_or_default();
                    let sleeping = st.rsplit(')').next().map(|x| x.trim_start().starts_with('S')).unwrap_or(false);
                    if same >= 9 && sleeping && (last.starts_with("1 ") || last.starts_with("44 ")) {
                        blocked_in = Some(last);
                        break;
                    }
                    // burning CPU instead: the whole scenario needs a fraction of a second of CPU time
                    let cpu_ticks: u64 = st.rsplit(')').next().map(|x| {
                        let f: Vec<&str> = x.split_whitespace().collect();
                        f.get(11).and_then(|v| v.parse::<u64>().ok()).unwrap_or(0) + f.get(12).and_then(|v| v.parse::<u64>().ok()).unwrap_or(0)
                    }).unwrap_or(0);
                    if cpu_ticks > 500 {
                        spinning = Some(cpu_ticks);
                        break;
                    }
                    if el > 60_000 {
                        break;
                    }
                }
                std::thread::sleep(std::time::Duration::from_millis(2));
            }
            if !ended {
                unsafe {
                    libc::kill(pid, libc::SIGKILL);
                    libc::waitpid(pid, &mut status, 0);
                }
            }
            let mut out = String::new();
            {
                use std::io::Read;
                let mut f = unsafe { std::fs::File::from_raw_fd(fds[0]) };
                let _ = f.read_to_string(&mut out);
            }
            n += 1;
            if let Some(t) = spinning {
                bad.push(("delivery-spins".into(), format!("{}: the child has burnt {} clock ticks of CPU and does not come back during {:?}: a delivery retries its wake-up for ever", label, t, out.lines().last())));
            } else if let Some(sc) = blocked_in {
                bad.push(("delivery-blocked-on-full-descriptor".into(), format!("{}: the child is blocked (stable) in syscall '{}' (1 = write, 44 = sendto) during {:?}", label, sc, out.lines().last())));
            } else if !ended {
                inconclusive = Some(format!("{}: child neither ended nor blocked in write/sendto", label));
            } else if !(libc::WIFEXITED(status) && libc::WEXITSTATUS(status) == 0) || !out.contains("DONE") {
                let why = if libc::WIFSIGNALED(status) { format!("signal {}", libc::WTERMSIG(status)) } else { format!("status {}", status) };
                bad.push(("pipe-scenario-died".into(), format!("{}: child ended abnormally ({}) after {:?}", label, why, out.lines().last())));
            }
            for l in out.lines().filter(|l| l.starts_with("BAD ")) {
                let s = if l.contains("wake attempts") { "wake-attempts-per-delivery" } else if l.contains("reader saw") || l.contains("produced") { "bytes-vs-deliveries" }
                    else if l.contains("still open") || l.contains("left open") || l.contains("descriptor table") { "descriptor-not-closed" }
                    else if l.contains("closed again") || l.contains("closed while") { "descriptor-closed-wrongly" }
                    else if l.contains("after the action had been removed") || l.contains("still wakes") { "wake-after-removal" } else { "pipe-misc" };
                bad.push((s.into(), format!("{} || {}", &l[4..], label)));
            }
            keys.insert(label.clone());
            if samples.len() < 5 {
                samples.push(J::s(&format!("{} -> {}", label, out.lines().filter(|l| !l.starts_with("BURST")).collect::<Vec<_>>().join("; "))));
            }
        }
    }
    // cycles
    let res = crate::fork::probe(120_000, false, move |fd| cycles(ncycles, fd));
    n += 1;
    if !res.out.contains("DONE") {
        bad.push(("pipe-scenario-died".into(), format!("cycles: {:?}", res.end)));
    }
    for l in res.out.lines().filter(|l| l.starts_with("BAD ")) {
        bad.push(("descriptor-lifecycle-in-cycles".into(), l[4..].to_string()));
    }
    keys.insert("cycles".into());
    director::uninstall();
    let mut nviol = 0;
    let mut seen = std::collections::HashSet::new();
    for (s, d) in bad.iter() {
        if seen.insert(s.clone()) {
            emit_violation("C13", s, d);
            nviol += 1;
        }
    }
    emit(&J::obj()
        .set("type", J::s("summary"))
        .set("workload", J::s("w_pipe"))
        .set("seed", J::u(seed))
        .set("evaluations", J::u(n))
        .set("distinct_keys", J::arr(keys.iter().map(|k| J::s(k))))
        .set("samples", J::Arr(samples))
        .set("register_unregister_cycles", J::u(ncycles))
        .set("deliveries_per_scenario", J::u(1012 + 1 + 5 + 2))
        .set("violations", J::u(nviol))
        .set("wall_ms", J::u(crate::now_ms() - t0)));
    if nviol == 0 {
        if let Some(r) = inconclusive {
            emit(&J::obj().set("type", J::s("inconclusive")).set("reason", J::s(&r)));
            return 2;
        }
    }
    if nviol > 0 { 1 } else { 0 }
}
