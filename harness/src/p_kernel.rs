//! A tiny "kernel model" for interpreters that cannot call sigaction(2): a table of dispositions
//! behind `signal_hook_registry::verif::libc_shim`. Deliveries are then simulated by calling
//! `verif::dispatch` from ordinary threads.

use std::sync::atomic::{AtomicUsize, Ordering};

#[allow(clippy::declare_interior_mutable_const)]
const A0: AtomicUsize = AtomicUsize::new(0);
static HANDLERS: [AtomicUsize; 130] = [A0; 130];
static FLAGS: [AtomicUsize; 130] = [A0; 130];
pub static SIGACTION_CALLS: AtomicUsize = AtomicUsize::new(0);

unsafe fn model_sigaction(sig: libc::c_int, new: *const libc::sigaction, old: *mut libc::sigaction) -> libc::c_int {
    SIGACTION_CALLS.fetch_add(1, Ordering::SeqCst);
    if !(1..=64).contains(&sig) || sig == 32 || sig == 33 || (!new.is_null() && (sig == libc::SIGKILL || sig == libc::SIGSTOP)) {
        return -1;
    }
    let i = sig as usize;
    if !old.is_null() {
        let mut o: libc::sigaction = std::mem::zeroed();
        o.sa_sigaction = HANDLERS[i].load(Ordering::SeqCst);
        o.sa_flags = FLAGS[i].load(Ordering::SeqCst) as libc::c_int;
        *old = o;
    }
    if !new.is_null() {
        HANDLERS[i].store((*new).sa_sigaction, Ordering::SeqCst);
        FLAGS[i].store((*new).sa_flags as usize, Ordering::SeqCst);
    }
    0
}

pub fn install() {
    signal_hook_registry::verif::libc_shim::set_sigaction_override(Some(model_sigaction));
}

/// Whether a handler is the disposition of `sig` in the model (function addresses are not unique
/// under Miri, so it is not compared with the dispatcher's).
pub fn taken_over(sig: libc::c_int) -> bool {
    HANDLERS[sig as usize].load(Ordering::SeqCst) > 1
}

/// Simulated delivery of `sig` carrying `seq` in si_value, on the calling thread.
pub fn deliver(sig: libc::c_int, seq: usize) {
    #[repr(C)]
    struct Raw {
        signo: libc::c_int,
        errno: libc::c_int,
        code: libc::c_int,
        pad: libc::c_int,
        pid: libc::c_int,
        uid: u32,
        value: usize,
        rest: [u8; 96],
    }
    let raw = Raw { signo: sig, errno: 0, code: -1, pad: 0, pid: 1, uid: 0, value: seq, rest: [0; 96] };
    let mut info: libc::siginfo_t = unsafe { std::mem::transmute(raw) };
    unsafe { signal_hook_registry::verif::dispatch(sig, &mut info, std::ptr::null_mut()) };
}
