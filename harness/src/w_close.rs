//! w_close: close() against every consumer step (C11).
//!
//! Trials: fresh instance; the consumer (wait / forever / poll_signal driven by the harness) is
//! paused at a failpoint, close() is called from another thread on a handle clone (or the closer
//! itself is paused between setting the flag and sending the wake), then everything is released.
//! Oracles: is_closed sticky on every clone; the consumer ends (stable stuck state = violation);
//! forever stays ended; wait never blocks after close; poll_signal says Pending only if the
//! callback was consulted in that call and last answered Ok(false).

use std::os::unix::io::AsRawFd;
use std::os::unix::net::UnixStream;
use std::sync::atomic::{AtomicBool, AtomicI32, AtomicU64, Ordering};
use std::sync::{Arc, Mutex};

use libc::c_int;
use signal_hook::iterator::backend::{Handle, PollResult, SignalDelivery, SignalIterator};
use signal_hook::iterator::exfiltrator::SignalOnly;
use signal_hook::iterator::Signals;

use crate::director::{self, mode, RuleSpec};
use crate::jsonw::{emit, emit_violation, J};
use crate::rng::Rng;
use crate::{arg_u64, class, site};

#[derive(Clone, Copy, PartialEq, Debug)]
enum Front {
    Wait,
    Forever,
    Poll,
}

struct Obs {
    ktid: AtomicI32,
    done: AtomicBool,
    progress: AtomicU64,
    problems: Mutex<Vec<String>>,
    polls: AtomicU64,
    pending_results: AtomicU64,
    yields: AtomicU64,
}

fn consumer(front: Front, inst: Inst, obs: Arc<Obs>) {
    obs.ktid.store(crate::sig::gettid(), Ordering::SeqCst);
    match (front, inst) {
        (Front::Wait, Inst::Front(mut s)) => {
            loop {
                for _ in s.wait() {
                    obs.yields.fetch_add(1, Ordering::SeqCst);
                    obs.progress.fetch_add(1, Ordering::SeqCst);
                }
                obs.progress.fetch_add(1, Ordering::SeqCst);
                if s.is_closed() {
                    break;
                }
            }
            // after close, wait() must not block any more
            for _ in 0..3 {
                let _ = s.wait().count();
                obs.progress.fetch_add(1, Ordering::SeqCst);
                if !s.is_closed() {
                    obs.problems.lock().unwrap().push("is_closed() went back to false".into());
                }
            }
            director::lib_exit();
            drop(s);
        }
        (Front::Forever, Inst::Front(mut s)) => {
            for _ in s.forever() {
                obs.yields.fetch_add(1, Ordering::SeqCst);
                obs.progress.fetch_add(1, Ordering::SeqCst);
            }
            obs.progress.fetch_add(1, Ordering::SeqCst);
            if !s.is_closed() {
                obs.problems.lock().unwrap().push("forever() ended although the instance is not closed".into());
            }
            // the infinite iterator stays ended
            for _ in 0..3 {
                if s.forever().next().is_some() {
                    obs.problems.lock().unwrap().push("forever() yielded again after it had returned None".into());
                }
                obs.progress.fetch_add(1, Ordering::SeqCst);
            }
            director::lib_exit();
            drop(s);
        }
        (Front::Poll, Inst::Poll(mut d)) => {
            let fd = d.get_read().as_raw_fd();
            unsafe {
                let fl = libc::fcntl(fd, libc::F_GETFL);
                libc::fcntl(fd, libc::F_SETFL, fl | libc::O_NONBLOCK);
            }
            {
                let mut it = SignalIterator::new(&mut d);
                let asked = std::cell::Cell::new(0u32);
                let last = std::cell::Cell::new(-1i32);
                let mut cb = |r: &mut UnixStream| -> Result<bool, std::io::Error> {
                    let mut b = [0u8; 1];
                    let n = unsafe { libc::read(r.as_raw_fd(), b.as_mut_ptr() as *mut _, 1) };
                    let ans = n > 0;
                    asked.set(asked.get() + 1);
                    last.set(ans as i32);
                    // the position right after the callback answered (the library has no failpoint here)
                    signal_hook_registry::verif::point(site::IT_PP_ASKED, ans as usize, 0);
                    Ok(ans)
                };
                let mut closed_seen = 0;
                loop {
                    asked.set(0);
                    last.set(-1);
                    obs.polls.fetch_add(1, Ordering::SeqCst);
                    let r = it.poll_signal(&mut cb);
                    obs.progress.fetch_add(1, Ordering::SeqCst);
                    match r {
                        PollResult::Signal(_) => {
                            obs.yields.fetch_add(1, Ordering::SeqCst);
                            if closed_seen > 0 {
                                obs.problems.lock().unwrap().push("poll_signal returned a signal after it had returned Closed".into());
                            }
                        }
                        PollResult::Closed => {
                            closed_seen += 1;
                            if closed_seen > 3 {
                                break;
                            }
                        }
                        PollResult::Pending => {
                            obs.pending_results.fetch_add(1, Ordering::SeqCst);
                            if asked.get() == 0 {
                                obs.problems.lock().unwrap().push("PENDING-UNARMED: poll_signal returned Pending although the readiness callback was not consulted during that call".into());
                            } else if last.get() != 0 {
                                obs.problems.lock().unwrap().push("PENDING-AFTER-READY: poll_signal returned Pending although the callback's last answer was 'ready'".into());
                            }
                            if closed_seen > 0 {
                                obs.problems.lock().unwrap().push("poll_signal returned Pending after it had returned Closed".into());
                            }
                            let mut p = libc::pollfd { fd, events: libc::POLLIN, revents: 0 };
                            unsafe { libc::poll(&mut p, 1, -1) };
                        }
                        PollResult::Err(e) => {
                            obs.problems.lock().unwrap().push(format!("poll_signal error {}", e));
                            break;
                        }
                    }
                }
            }
            director::lib_exit();
            drop(d);
        }
        _ => unreachable!(),
    }
    director::lib_exit();
    director::flush_counts();
    obs.done.store(true, Ordering::SeqCst);
}

/// Pins a thread (kernel tid; 0 = the caller) to one CPU.
fn pin_thread(ktid: i32, cpu: usize) {
    unsafe {
        let mut set: libc::cpu_set_t = std::mem::zeroed();
        libc::CPU_SET(cpu % 16, &mut set);
        libc::sched_setaffinity(ktid, std::mem::size_of::<libc::cpu_set_t>(), &set);
    }
}

enum Inst {
    Front(Signals),
    Poll(SignalDelivery<UnixStream, SignalOnly>),
}

#[derive(Default)]
struct Tot {
    trials: u64,
    site_not_reached: u64,
    paused_consumer: u64,
    paused_closer: u64,
    random: u64,
    pinned: u64,
    storm: u64,
    backlog: u64,
    keys: std::collections::HashSet<String>,
    samples: Vec<J>,
    bad: Vec<(String, String)>,
    inconclusive: Option<String>,
    pending_results: u64,
    polls: u64,
}

static CLOSE_PANICS: AtomicU64 = AtomicU64::new(0);

/// close() with its panics caught and counted (a panicking close() has not closed anything).
fn close_caught(h: &Handle) {
    let prev_hook = std::panic::take_hook();
    std::panic::set_hook(Box::new(|_| {}));
    let r = std::panic::catch_unwind(std::panic::AssertUnwindSafe(|| h.close()));
    std::panic::set_hook(prev_hook);
    if r.is_err() {
        CLOSE_PANICS.fetch_add(1, Ordering::SeqCst);
    }
}

// instruction-step scenario (5): at the k-th instruction after the consumer's arrival at a site, a closer thread
// runs close() to completion while the consumer stands still at that instruction
static STEP_K: AtomicU64 = AtomicU64::new(0);
static CLOSE_GO: AtomicU64 = AtomicU64::new(0);
static CLOSE_DONE: AtomicU64 = AtomicU64::new(0);
static LAST_STEP: Mutex<(u64, bool)> = Mutex::new((0, false));

fn close_step_action(_k: u64, _rip: usize) {
    CLOSE_GO.store(1, Ordering::SeqCst);
    let mut i = 0u64;
    while CLOSE_DONE.load(Ordering::SeqCst) == 0 {
        i += 1;
        if i % 64 == 0 {
            unsafe { libc::sched_yield() };
        }
    }
}

#[allow(clippy::too_many_arguments)]
fn trial(front: Front, scenario: u32, psite: u32, occ: u64, with_signal: bool, sig: c_int, rng: &mut Rng, tot: &mut Tot) {
    director::clear_rules();
    let label = format!("{:?} scenario={} site={} occ={} deliver={}", front, scenario, director::site_name(psite), occ, with_signal);
    let fds_before = crate::sig::open_fds();
    let (inst, readfd) = match front {
        Front::Poll => {
            let (r, w) = UnixStream::pair().unwrap();
            let fd = r.as_raw_fd();
            (Inst::Poll(SignalDelivery::with_pipe(r, w, SignalOnly, [sig]).unwrap()), fd)
        }
        _ => {
            let s = Signals::new([sig]).unwrap();
            let new: Vec<c_int> = crate::sig::open_fds().into_iter().filter(|f| !fds_before.contains(f)).collect();
            if new.len() != 2 {
                tot.inconclusive = Some("fds not identified".into());
                return;
            }
            (Inst::Front(s), new[0])
        }
    };
    let handle: Handle = match &inst {
        Inst::Front(s) => s.handle(),
        Inst::Poll(d) => d.handle(),
    };
    let clone_a = handle.clone();
    let clone_b = handle.clone();
    // In some trials an add_signal was rejected earlier (its documented panic caught by the application): close() must still
    // close. And in some trials close() is called a second time through another clone afterwards: closed is for ever.
    let poisoned_first = rng.chance(1, 4);
    let double_close = rng.chance(1, 3);
    if poisoned_first {
        let h = handle.clone();
        let prev_hook = std::panic::take_hook();
        std::panic::set_hook(Box::new(|_| {}));
        let r = std::panic::catch_unwind(std::panic::AssertUnwindSafe(|| h.add_signal(libc::SIGKILL)));
        std::panic::set_hook(prev_hook);
        if r.is_ok() {
            tot.bad.push(("close-misc".into(), "add_signal(SIGKILL) did not panic".into()));
        }
        director::lib_exit();
    }
    let label = format!("{} rejected_add_before={} second_close={}", label, poisoned_first, double_close);
    let obs = Arc::new(Obs {
        ktid: AtomicI32::new(0),
        done: AtomicBool::new(false),
        progress: AtomicU64::new(0),
        problems: Mutex::new(vec![]),
        polls: AtomicU64::new(0),
        pending_results: AtomicU64::new(0),
        yields: AtomicU64::new(0),
    });
    // rules must be in place before the consumer starts
    match scenario {
        0 => director::set_rule(psite, RuleSpec { mode: mode::PAUSE, class_mask: class::CONSUMER, nth: occ, arg: 0, ..Default::default() }),
        1 => director::set_rule(site::IT_CLOSE_FLAGGED, RuleSpec { mode: mode::PAUSE, class_mask: class::MUTATOR, nth: 1, arg: 1, ..Default::default() }),
        6 => {
            // the consumer is held before its first read while a backlog of wake-ups builds up
            let hold = if front == Front::Poll { site::IT_PS_LOOP } else { site::IT_HAS_BEFORE_READ };
            director::set_rule(hold, RuleSpec { mode: mode::PAUSE, class_mask: class::CONSUMER, nth: 1, arg: 0, ..Default::default() });
        }
        5 => {
            CLOSE_GO.store(0, Ordering::SeqCst);
            CLOSE_DONE.store(0, Ordering::SeqCst);
            crate::istep::plan_for(5, psite, occ, STEP_K.load(Ordering::SeqCst), 20_000, u64::MAX, u64::MAX, true, close_step_action);
        }
        _ => {
            for s in [site::IT_PS_LOOP, site::IT_PS_ITER_EMPTY, site::IT_PP_CLOSED_CHECKED, site::IT_HAS_BEFORE_READ, site::IT_FLUSH_BEGIN, site::IT_FLUSH_END, site::IT_CLOSE_FLAGGED, site::IT_PP_ASKED] {
                director::set_rule(s, RuleSpec { mode: mode::DELAY, p: 20000, max: 2000, ..Default::default() });
            }
        }
    }
    let cj = {
        let obs = obs.clone();
        std::thread::spawn(move || {
            crate::set_thread(5, class::CONSUMER);
            director::seed_thread(5);
            consumer(front, inst, obs);
            if crate::istep::is_active() {
                crate::istep::disarm();
            }
        })
    };
    let t0 = crate::now_ms();
    while obs.ktid.load(Ordering::SeqCst) == 0 {
        std::thread::yield_now();
        if crate::now_ms() - t0 > 10_000 {
            tot.inconclusive = Some("consumer did not start".into());
            return;
        }
    }
    let ktid = obs.ktid.load(Ordering::SeqCst);
    let cons_pthread_hint = with_signal;
    let deliver = |n: u32| {
        for _ in 0..n {
            unsafe { libc::kill(libc::getpid(), sig) };
        }
    };
    let closer_done = Arc::new(AtomicBool::new(false));
    let mut closer_join = None;
    let spawn_closer = |h: Handle, done: Arc<AtomicBool>| {
        std::thread::spawn(move || {
            crate::set_thread(6, class::MUTATOR);
            close_caught(&h);
            director::lib_exit();
            director::flush_counts();
            done.store(true, Ordering::SeqCst);
        })
    };
    let mut reached = true;
    match scenario {
        0 => {
            // make the consumer run through its scan path if the site needs a wake-up
            if cons_pthread_hint {
                deliver(1);
            }
            let tw = crate::now_ms();
            while director::parked(0) != Some(5) {
                std::thread::yield_now();
                if obs.done.load(Ordering::SeqCst) {
                    break;
                }
                if crate::now_ms() - tw > 120 {
                    reached = false;
                    break;
                }
            }
            if reached && !obs.done.load(Ordering::SeqCst) {
                tot.paused_consumer += 1;
                tot.keys.insert(format!("{:?}:consumer-paused@{}#{}:{}", front, director::site_name(psite), occ, with_signal));
            } else {
                tot.site_not_reached += 1;
            }
            close_caught(&clone_a);
            closer_done.store(true, Ordering::SeqCst);
            if !clone_a.is_closed() || !clone_b.is_closed() || !handle.is_closed() {
                tot.bad.push(("is-closed-not-sticky".into(), format!("is_closed() false on a clone after close() returned [{}]", label)));
            }
            if rng.chance(1, 2) {
                deliver(1);
            }
            director::rule_off(psite);
            director::open_gate(0);
        }
        1 => {
            closer_join = Some(spawn_closer(clone_a.clone(), closer_done.clone()));
            let tw = crate::now_ms();
            while director::parked(1) != Some(6) {
                std::thread::yield_now();
                if crate::now_ms() - tw > 2000 {
                    reached = false;
                    break;
                }
            }
            if reached {
                tot.paused_closer += 1;
                tot.keys.insert(format!("{:?}:closer-paused:{}", front, with_signal));
                // flag is set, wake not yet sent
                if !clone_b.is_closed() {
                    tot.bad.push(("is-closed-not-sticky".into(), format!("flag not visible on a clone while the closer is between flag and wake [{}]", label)));
                }
                if with_signal {
                    deliver(1 + rng.below(2) as u32);
                }
                for _ in 0..rng.below(20000) {
                    std::hint::spin_loop();
                }
            } else {
                tot.site_not_reached += 1;
            }
            director::rule_off(site::IT_CLOSE_FLAGGED);
            director::open_gate(1);
        }
        5 => {
            let h = clone_a.clone();
            let done = closer_done.clone();
            closer_join = Some(std::thread::spawn(move || {
                crate::set_thread(6, class::MUTATOR);
                while CLOSE_GO.load(Ordering::SeqCst) == 0 {
                    std::hint::spin_loop();
                }
                close_caught(&h);
                director::lib_exit();
                director::flush_counts();
                done.store(true, Ordering::SeqCst);
                CLOSE_DONE.store(1, Ordering::SeqCst);
            }));
            if cons_pthread_hint {
                deliver(1);
            }
            let tw = crate::now_ms();
            let st = crate::istep::state_of(5);
            while !closer_done.load(Ordering::SeqCst) {
                std::thread::yield_now();
                if obs.done.load(Ordering::SeqCst) || crate::now_ms() - tw > 100 {
                    break;
                }
            }
            let fired = st.fired.load(Ordering::SeqCst) > 0;
            if !fired {
                // the k-th instruction was not reached (the consumer blocks before it, or the window is shorter)
                reached = false;
                tot.site_not_reached += 1;
                crate::istep::cancel_plan(5);
                CLOSE_GO.store(1, Ordering::SeqCst);
            } else {
                tot.paused_consumer += 1;
                tot.keys.insert(format!("{:?}:step@{}#{}:{}", front, director::site_name(psite), occ, with_signal));
            }
            let tw = crate::now_ms();
            while !closer_done.load(Ordering::SeqCst) && crate::now_ms() - tw < 10_000 {
                std::thread::yield_now();
            }
            if !clone_a.is_closed() || !clone_b.is_closed() || !handle.is_closed() {
                tot.bad.push(("is-closed-not-sticky".into(), format!("is_closed() false on a clone after close() returned [{}]", label)));
            }
            *LAST_STEP.lock().unwrap() = (0, fired);
        }
        7 => {
            // a long-lived instance: 200 wake-ups handled one by one, then close() while the consumer is blocked again
            tot.backlog += 1;
            tot.keys.insert(format!("{:?}:after-200-wakeups", front));
            for i in 0..200u64 {
                let y0 = obs.yields.load(Ordering::SeqCst);
                deliver(1);
                let tw = crate::now_ms();
                while obs.yields.load(Ordering::SeqCst) == y0 {
                    std::thread::yield_now();
                    if obs.done.load(Ordering::SeqCst) || crate::now_ms() - tw > 5000 {
                        break;
                    }
                }
                if obs.yields.load(Ordering::SeqCst) == y0 {
                    tot.bad.push(("close-misc".into(), format!("delivery #{} was not yielded within 5 s [{}]", i, label)));
                    break;
                }
            }
            close_caught(&clone_a);
            closer_done.store(true, Ordering::SeqCst);
        }
        6 => {
            // close() with the self-pipe completely full (hundreds of undrained wake-ups): it must return all the same, and the
            // consumer must end once it runs again
            tot.backlog += 1;
            tot.keys.insert(format!("{:?}:backlog", front));
            let tw = crate::now_ms();
            while director::parked(0) != Some(5) && crate::now_ms() - tw < 2000 {
                std::thread::yield_now();
            }
            for _ in 0..600 {
                unsafe { libc::raise(sig) };
            }
            let h = clone_a.clone();
            let done = closer_done.clone();
            closer_join = Some(std::thread::spawn(move || {
                crate::set_thread(6, class::MUTATOR);
                close_caught(&h);
                director::lib_exit();
                done.store(true, Ordering::SeqCst);
            }));
            // the closer has nothing to wait for: burning CPU without returning is the verdict
            let t0 = crate::now_ms();
            let mut cpu0 = None;
            while !closer_done.load(Ordering::SeqCst) {
                std::thread::sleep(std::time::Duration::from_millis(5));
                let pth = crate::THREAD_PTH[6].load(Ordering::SeqCst);
                if pth != 0 {
                    let c = crate::probe::thread_cpu_ns(pth as libc::pthread_t);
                    let c0 = *cpu0.get_or_insert(c);
                    if c.saturating_sub(c0) > 2_000_000_000 {
                        tot.bad.push(("close-does-not-return".into(), format!("close() has burnt 2 s of CPU without returning while the self-pipe is full of undrained wake-ups (the consumer is not running) [{}]", label)));
                        emit_violation("C11", "close-does-not-return", &tot.bad.last().unwrap().1);
                        std::process::exit(1);
                    }
                }
                if crate::now_ms() - t0 > 30_000 {
                    tot.inconclusive = Some(format!("close() neither returned nor burnt CPU [{}]", label));
                    std::process::exit(2);
                }
            }
            director::rule_off(if front == Front::Poll { site::IT_PS_LOOP } else { site::IT_HAS_BEFORE_READ });
            director::open_gate(0);
        }
        4 => {
            // a storm of the watched signal before, during and after close(): the iterator must still end, after at most a
            // handful of further items
            tot.storm += 1;
            tot.keys.insert(format!("{:?}:storm", front));
            let stop_storm = Arc::new(AtomicBool::new(false));
            let ss = stop_storm.clone();
            let storm = std::thread::spawn(move || {
                crate::set_thread(7, class::KILLER);
                let mut n = 0u64;
                while !ss.load(Ordering::SeqCst) && n < 3_000_000 {
                    unsafe { libc::kill(libc::getpid(), sig) };
                    n += 1;
                    for _ in 0..300 {
                        std::hint::spin_loop();
                    }
                }
            });
            for _ in 0..rng.below(40000) {
                std::hint::spin_loop();
            }
            close_caught(&clone_a);
            closer_done.store(true, Ordering::SeqCst);
            let y0 = obs.yields.load(Ordering::SeqCst);
            let tw = crate::now_ms();
            while !obs.done.load(Ordering::SeqCst) {
                let extra = obs.yields.load(Ordering::SeqCst) - y0;
                if extra > 2000 {
                    tot.bad.push((
                        "iterator-does-not-end-after-close".into(),
                        format!("{} further items were yielded after close() had returned and the consumer still has not ended (signals keep arriving) [{}]", extra, label),
                    ));
                    break;
                }
                if crate::now_ms() - tw > 20_000 {
                    break;
                }
                std::thread::yield_now();
            }
            stop_storm.store(true, Ordering::SeqCst);
            let _ = storm.join();
        }
        3 => {
            // the wake-up of close() makes the consumer runnable on the closer's own CPU: the kernel may switch to it
            // before close() has executed its next instruction
            tot.pinned += 1;
            tot.keys.insert(format!("{:?}:same-cpu:{}", front, with_signal));
            let cpu = (rng.below(8) + 2) as usize;
            pin_thread(ktid, cpu);
            if with_signal {
                deliver(1);
            }
            let prog = || obs.progress.load(Ordering::SeqCst);
            let sysnos: &[i64] = if front == Front::Poll { &[7, 271] } else { &[0, 45] };
            let tw = crate::now_ms();
            while !crate::probe::stably_blocked_in(ktid, sysnos, None, 2, 1, &prog) {
                if crate::now_ms() - tw > 5000 || obs.done.load(Ordering::SeqCst) {
                    break;
                }
            }
            let h = clone_a.clone();
            let done = closer_done.clone();
            closer_join = Some(std::thread::spawn(move || {
                crate::set_thread(6, class::MUTATOR);
                pin_thread(0, cpu);
                // burn some CPU there first, so that the scheduler prefers the long-sleeping consumer as soon as it is woken
                let t0 = crate::now_ms();
                while crate::now_ms() - t0 < 3 {
                    std::hint::spin_loop();
                }
                close_caught(&h);
                director::lib_exit();
                done.store(true, Ordering::SeqCst);
            }));
        }
        _ => {
            tot.random += 1;
            tot.keys.insert(format!("{:?}:random:{}", front, with_signal));
            if with_signal {
                deliver(rng.below(4) as u32);
            }
            for _ in 0..rng.below(30000) {
                std::hint::spin_loop();
            }
            closer_join = Some(spawn_closer(clone_a.clone(), closer_done.clone()));
            if with_signal {
                deliver(rng.below(3) as u32);
            }
        }
    }
    // ---- the consumer must end. Stable stuck state = violation; watchdog = inconclusive.
    let tw = crate::now_ms();
    let mut close_panicked = false;
    loop {
        if obs.done.load(Ordering::SeqCst) {
            break;
        }
        if CLOSE_PANICS.swap(0, Ordering::SeqCst) > 0 {
            tot.bad.push(("close-panicked".into(), format!("close() panicked instead of closing the instance [{}]", label)));
            close_panicked = true;
            break;
        }
        if closer_done.load(Ordering::SeqCst) && crate::sig::fionread(readfd) == 0 {
            let prog = || obs.progress.load(Ordering::SeqCst);
            let sysnos: &[i64] = if front == Front::Poll { &[7, 271] } else { &[0, 45] };
            if crate::probe::stably_blocked_in(ktid, sysnos, None, 20, 10, &prog)
                && crate::sig::fionread(readfd) == 0
                && !obs.done.load(Ordering::SeqCst)
            {
                tot.bad.push((
                    "consumer-stranded-after-close".into(),
                    format!("close() returned, the self-pipe is empty and the consumer is blocked (stable) [{}]", label),
                ));
                // unblock it so that the process can go on: one more wake byte
                close_caught(&handle);
                deliver(1);
                std::thread::sleep(std::time::Duration::from_millis(50));
                break;
            }
        }
        if crate::now_ms() - tw > 30_000 {
            tot.inconclusive = Some(format!("consumer neither ended nor reached a stable blocked state [{}]", label));
            emit(&J::obj().set("type", J::s("inconclusive")).set("reason", J::s("w_close watchdog")));
            std::process::exit(2);
        }
        std::thread::yield_now();
    }
    if let Some(j) = closer_join {
        let _ = j.join();
    }
    if obs.done.load(Ordering::SeqCst) {
        let _ = cj.join();
    }
    if scenario == 5 {
        crate::istep::cancel_plan(5);
        LAST_STEP.lock().unwrap().0 = crate::istep::LAST_GAP[5].load(Ordering::SeqCst);
    }
    if close_panicked {
        // nothing can close this instance any more; its consumer stays where it is
        tot.trials += 1;
        director::close_gate(0);
        director::close_gate(1);
        std::mem::forget(handle);
        return;
    }
    if CLOSE_PANICS.swap(0, Ordering::SeqCst) > 0 {
        tot.bad.push(("close-panicked".into(), format!("close() panicked [{}]", label)));
    }
    // sticky after more deliveries and after another close()
    if double_close {
        close_caught(&clone_b);
        director::lib_exit();
    }
    deliver(1);
    if !handle.is_closed() || !clone_b.is_closed() {
        tot.bad.push(("is-closed-not-sticky".into(), format!("is_closed() false later on [{}]", label)));
    }
    for p in obs.problems.lock().unwrap().iter().take(3) {
        let sig = if p.starts_with("PENDING-UNARMED") { "pending-without-consulting-callback" }
            else if p.starts_with("PENDING-AFTER-READY") { "pending-after-ready-answer" }
            else if p.contains("forever") { "forever-not-ended" } else { "close-misc" };
        tot.bad.push((sig.into(), format!("{} [{}]", p, label)));
    }
    tot.polls += obs.polls.load(Ordering::SeqCst);
    tot.pending_results += obs.pending_results.load(Ordering::SeqCst);
    tot.trials += 1;
    if tot.samples.len() < 8 && reached {
        tot.samples.push(J::s(&format!("{} -> consumer ended, yields={} polls={} pendings={}", label, obs.yields.load(Ordering::SeqCst), obs.polls.load(Ordering::SeqCst), obs.pending_results.load(Ordering::SeqCst))));
    }
    director::close_gate(0);
    director::close_gate(1);
    drop(handle);
}

/// close() lands while the very first add_signal of an (empty) instance is between its registration and its bookkeeping:
/// closed is for ever all the same.
fn close_during_first_add(rounds: u64, tot: &mut Tot) {
    for r in 0..rounds {
        director::clear_rules();
        let s = match Signals::new(&[] as &[c_int]) {
            Ok(s) => s,
            Err(_) => return,
        };
        let h = s.handle();
        let h2 = h.clone();
        director::set_rule(site::IT_ADD_REGISTERED, RuleSpec { mode: mode::PAUSE, class_mask: class::MUTATOR, nth: 1, arg: 2, ..Default::default() });
        let j = std::thread::spawn(move || {
            crate::set_thread(6, class::MUTATOR);
            let ok = h2.add_signal(libc::SIGUSR1).is_ok();
            director::lib_exit();
            ok
        });
        let tw = crate::now_ms();
        let mut reached = true;
        while director::parked(2) != Some(6) {
            std::thread::yield_now();
            if crate::now_ms() - tw > 2000 {
                reached = false;
                break;
            }
        }
        // close() runs on a thread of its own: should it wait for the add_signal in progress (it need not), that one is
        // released after 300 ms so that both can finish
        let hc = h.clone();
        let closed = Arc::new(AtomicBool::new(false));
        let c2 = closed.clone();
        let jc = std::thread::spawn(move || {
            crate::set_thread(7, class::KILLER);
            close_caught(&hc);
            c2.store(true, Ordering::SeqCst);
        });
        let tc = crate::now_ms();
        while !closed.load(Ordering::SeqCst) && crate::now_ms() - tc < 300 {
            std::thread::yield_now();
        }
        director::rule_off(site::IT_ADD_REGISTERED);
        director::open_gate(2);
        let _ = j.join();
        let _ = jc.join();
        director::close_gate(2);
        if reached {
            tot.paused_closer += 1;
            tot.keys.insert("close-inside-first-add".to_string());
        }
        if !h.is_closed() || !s.is_closed() {
            tot.bad.push(("is-closed-not-sticky".into(), format!("round {}: close() returned while the first add_signal of the instance stood between its registration and its bookkeeping; after that add_signal finished is_closed() is false again", r)));
            return;
        }
        drop(s);
        tot.trials += 1;
    }
    director::clear_rules();
}

pub fn main(args: &[String]) -> i32 {
    let seed = arg_u64(args, "--seed", 1);
    let reps = arg_u64(args, "--reps", 1);
    let random_n = arg_u64(args, "--random", 200);
    crate::set_thread(1, class::MAIN);
    director::seed_thread(seed);
    director::install();
    let mut rng = Rng::new(seed);
    let mut tot = Tot::default();
    let sig = libc::SIGUSR1;
    // take the signal over first (an unhandled SIGUSR1 would kill us)
    let _w = unsafe { signal_hook_registry::register(sig, || ()) }.unwrap();
    let t0 = crate::now_ms();
    let sites = [
        site::IT_PS_LOOP, site::IT_PS_ITER_EMPTY, site::IT_PP_CLOSED_CHECKED, site::IT_PP_ASKED, site::IT_HAS_BEFORE_READ,
        site::IT_FLUSH_BEGIN, site::IT_FLUSH_END, site::IT_SCAN, site::EX_LOAD,
    ];
    if crate::arg_str(args, "--mode", "") == "istep" {
        // ---- instruction-step sweep (sharded over child processes)
        let of = arg_u64(args, "--of", 0);
        let stride = arg_u64(args, "--stride", 1).max(1);
        if !crate::istep::supported() {
            emit(&J::obj().set("type", J::s("inconclusive")).set("reason", J::s("instruction stepping needs x86-64 Linux")));
            return 2;
        }
        if of == 0 {
            let n = arg_u64(args, "--shards", 8).max(1);
            let exe = std::env::current_exe().expect("exe");
            let mut kids = Vec::new();
            for i in 0..n {
                let mut a: Vec<String> = vec!["w_close".into()];
                a.extend(args.iter().cloned());
                a.extend(["--shard".to_string(), i.to_string(), "--of".to_string(), n.to_string()]);
                kids.push(std::process::Command::new(&exe).args(&a).stdout(std::process::Stdio::piped()).spawn().expect("spawn shard"));
            }
            let mut code = 0;
            for k in kids {
                let out = k.wait_with_output().expect("shard output");
                print!("{}", String::from_utf8_lossy(&out.stdout));
                let c = out.status.code().unwrap_or(101);
                if c == 1 || (c != 0 && code == 0) {
                    code = c;
                }
            }
            return code;
        }
        let shard = arg_u64(args, "--shard", 0);
        crate::istep::install();
        let mut idx = 0u64;
        let mut windows = 0u64;
        'sweep: for front in [Front::Wait, Front::Forever, Front::Poll] {
            for s in sites.iter() {
                let valid = match front {
                    Front::Wait => ![site::IT_PS_LOOP, site::IT_PS_ITER_EMPTY, site::IT_PP_ASKED].contains(s),
                    Front::Forever => *s != site::IT_PP_ASKED,
                    Front::Poll => *s != site::IT_HAS_BEFORE_READ,
                };
                // IT_PP_ASKED is emitted by the harness's own callback, not by the library
                if !valid || *s == site::IT_PP_ASKED {
                    continue;
                }
                for occ in 1..=2u64 {
                    for with_signal in [false, true] {
                        // whole windows are dealt out to the shards (the measuring trial is per window)
                        idx += 1;
                        if idx % of != shard {
                            continue;
                        }
                        STEP_K.store(u64::MAX - 1, Ordering::SeqCst);
                        trial(front, 5, *s, occ, with_signal, sig, &mut rng, &mut tot);
                        let gap = LAST_STEP.lock().unwrap().0.min(1500);
                        windows += 1;
                        let mut k = 1 + (seed % stride);
                        while k <= gap + 1 {
                            STEP_K.store(k, Ordering::SeqCst);
                            trial(front, 5, *s, occ, with_signal, sig, &mut rng, &mut tot);
                            if !tot.bad.is_empty() || tot.inconclusive.is_some() {
                                break 'sweep;
                            }
                            if !LAST_STEP.lock().unwrap().1 {
                                // not reached: the consumer blocks before the k-th instruction; larger k will not be reached either
                                break;
                            }
                            k += stride;
                        }
                    }
                }
            }
        }
        director::flush_counts();
        director::uninstall();
        let mut nviol = 0;
        let mut seen = std::collections::HashSet::new();
        for (sigv, d) in tot.bad.iter() {
            if seen.insert(sigv.clone()) {
                emit_violation("C11", sigv, d);
                nviol += 1;
            }
        }
        emit(&J::obj()
            .set("type", J::s("summary"))
            .set("workload", J::s("w_close"))
            .set("mode", J::s("istep"))
            .set("seed", J::u(seed))
            .set("shard", J::u(shard))
            .set("evaluations", J::u(tot.paused_consumer))
            .set("distinct_keys", J::arr(tot.keys.iter().map(|k| J::s(k))))
            .set("samples", J::Arr(tot.samples.iter().take(3).cloned().collect()))
            .set("step_trials", J::u(tot.trials))
            .set("step_trials_fired", J::u(tot.paused_consumer))
            .set("step_windows_measured", J::u(windows))
            .set("trials_site_not_reached", J::u(tot.site_not_reached))
            .set("poll_signal_calls", J::u(tot.polls))
            .set("poll_pending_results_checked", J::u(tot.pending_results))
            .set("violations", J::u(nviol))
            .set("wall_ms", J::u(crate::now_ms() - t0)));
        if nviol == 0 {
            if let Some(r) = tot.inconclusive {
                emit(&J::obj().set("type", J::s("inconclusive")).set("reason", J::s(&r)));
                return 2;
            }
        }
        return if nviol > 0 { 1 } else { 0 };
    }
    close_during_first_add(20, &mut tot);
    'all: for _rep in 0..reps {
        if !tot.bad.is_empty() {
            break;
        }
        for front in [Front::Wait, Front::Forever, Front::Poll] {
            for s in sites.iter() {
                // sites that the front-end never passes
                let valid = match front {
                    Front::Wait => ![site::IT_PS_LOOP, site::IT_PS_ITER_EMPTY, site::IT_PP_ASKED].contains(s),
                    Front::Forever => *s != site::IT_PP_ASKED,
                    Front::Poll => *s != site::IT_HAS_BEFORE_READ,
                };
                if !valid {
                    continue;
                }
                for occ in 1..=3u64 {
                    for with_signal in [false, true] {
                        trial(front, 0, *s, occ, with_signal, sig, &mut rng, &mut tot);
                        if !tot.bad.is_empty() && !crate::has_flag(args, "--keep-going") || tot.inconclusive.is_some() {
                            break 'all;
                        }
                    }
                }
            }
            for with_signal in [false, true] {
                for _ in 0..3 {
                    trial(front, 1, 0, 1, with_signal, sig, &mut rng, &mut tot);
                }
            }
            for i in 0..(random_n / 3).max(30) {
                trial(front, 3, 0, 0, i % 4 == 0, sig, &mut rng, &mut tot);
                if !tot.bad.is_empty() && !crate::has_flag(args, "--keep-going") || tot.inconclusive.is_some() {
                    break 'all;
                }
            }
            trial(front, 7, 0, 0, true, sig, &mut rng, &mut tot);
            for _ in 0..2 {
                trial(front, 6, 0, 0, true, sig, &mut rng, &mut tot);
                if !tot.bad.is_empty() && !crate::has_flag(args, "--keep-going") || tot.inconclusive.is_some() {
                    break 'all;
                }
            }
            for _ in 0..(random_n / 20).max(3) {
                trial(front, 4, 0, 0, true, sig, &mut rng, &mut tot);
                if !tot.bad.is_empty() && !crate::has_flag(args, "--keep-going") || tot.inconclusive.is_some() {
                    break 'all;
                }
            }
            for i in 0..random_n {
                trial(front, 2, 0, 0, i % 2 == 0, sig, &mut rng, &mut tot);
                if !tot.bad.is_empty() && !crate::has_flag(args, "--keep-going") || tot.inconclusive.is_some() {
                    break 'all;
                }
            }
        }
    }
    director::flush_counts();
    director::uninstall();
    let mut seen = std::collections::HashSet::new();
    let mut nviol = 0;
    for (sigv, d) in tot.bad.iter() {
        if seen.insert(sigv.clone()) || nviol < 3 {
            emit_violation("C11", sigv, d);
            nviol += 1;
        }
    }
    emit(&J::obj()
        .set("type", J::s("summary"))
        .set("workload", J::s("w_close"))
        .set("seed", J::u(seed))
        .set("evaluations", J::u(tot.trials))
        .set("distinct_keys", J::arr(tot.keys.iter().map(|k| J::s(k))))
        .set("samples", J::Arr(tot.samples.clone()))
        .set("trials_consumer_paused", J::u(tot.paused_consumer))
        .set("trials_closer_paused", J::u(tot.paused_closer))
        .set("trials_random", J::u(tot.random))
        .set("trials_same_cpu", J::u(tot.pinned))
        .set("trials_signal_storm", J::u(tot.storm))
        .set("trials_close_on_full_pipe", J::u(tot.backlog))
        .set("trials_site_not_reached", J::u(tot.site_not_reached))
        .set("poll_signal_calls", J::u(tot.polls))
        .set("poll_pending_results_checked", J::u(tot.pending_results))
        .set("violations", J::u(nviol))
        .set("wall_ms", J::u(crate::now_ms() - t0)));
    if nviol == 0 {
        if let Some(r) = tot.inconclusive {
            emit(&J::obj().set("type", J::s("inconclusive")).set("reason", J::s(&r)));
            return 2;
        }
    }
    if nviol > 0 { 1 } else { 0 }
}
