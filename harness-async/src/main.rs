//! vha: the real signal-hook-async-std stream against close() (C11, thorough tier and a short quick run).
//!
//! Per trial: a fresh `Signals` stream is consumed by a task (`async_io::block_on`) on its own thread; another
//! thread delivers 0..3 signals and calls `close()` on a handle clone at a random moment, with delays injected at
//! the iterator failpoints of the consumer. The task must end (`next()` yields None). A task that stays parked
//! (stable: thread blocked in futex/epoll with the instance closed) is stranded = violation.

use std::sync::atomic::{AtomicBool, AtomicI32, AtomicU64, Ordering};
use std::sync::Arc;

use futures_lite::StreamExt;
use signal_hook_async_std::Signals;
use vh::director::{self, mode, RuleSpec};
use vh::jsonw::{emit, emit_violation, J};
use vh::rng::Rng;
use vh::{arg_u64, class, site};

fn main() {
    let args: Vec<String> = std::env::args().collect();
    let seed = arg_u64(&args, "--seed", 1);
    let trials = arg_u64(&args, "--trials", 300);
    vh::set_thread(1, class::MAIN);
    director::install();
    director::seed_thread(seed);
    let sig = libc::SIGUSR1;
    let _keep = unsafe { signal_hook_registry::register(sig, || ()) }.unwrap();
    let mut rng = Rng::new(seed);
    let t0 = vh::now_ms();
    let mut bad: Vec<String> = Vec::new();
    let mut inconclusive = None;
    let mut keys = std::collections::HashSet::new();
    let mut ended = 0u64;
    let mut yields_total = 0u64;
    let mut samples = Vec::new();
    for trial in 0..trials {
        director::clear_rules();
        let variant = trial % 4;
        // widen the windows between the consumer's closed-checks
        if variant != 0 {
            for s in [site::IT_PS_LOOP, site::IT_PS_ITER_EMPTY, site::IT_PP_CLOSED_CHECKED, site::IT_FLUSH_BEGIN, site::IT_CLOSE_FLAGGED] {
                director::set_rule(s, RuleSpec { mode: mode::DELAY, p: 30000, max: 1 + rng.below(6000) as u32, ..Default::default() });
            }
        }
        let signals = match Signals::new([sig]) {
            Ok(s) => s,
            Err(e) => {
                bad.push(format!("Signals::new failed: {}", e));
                break;
            }
        };
        let handle = signals.handle();
        let done = Arc::new(AtomicBool::new(false));
        let ktid = Arc::new(AtomicI32::new(0));
        let yields = Arc::new(AtomicU64::new(0));
        let (d2, k2, y2) = (done.clone(), ktid.clone(), yields.clone());
        let task = std::thread::spawn(move || {
            vh::set_thread(5, class::CONSUMER);
            director::seed_thread(trial + 11);
            k2.store(vh::sig::gettid(), Ordering::SeqCst);
            let mut signals = signals;
            async_io::block_on(async {
                while let Some(_s) = signals.next().await {
                    y2.fetch_add(1, Ordering::SeqCst);
                }
            });
            director::lib_exit();
            d2.store(true, Ordering::SeqCst);
        });
        while ktid.load(Ordering::SeqCst) == 0 {
            std::thread::yield_now();
        }
        let nsig = if variant >= 2 { rng.below(4) } else { 0 };
        for _ in 0..nsig {
            unsafe { libc::kill(libc::getpid(), sig) };
        }
        // close at a random moment relative to the task's first polls
        for _ in 0..rng.below(if variant == 3 { 200_000 } else { 3_000 }) {
            std::hint::spin_loop();
        }
        handle.close();
        if !handle.is_closed() {
            bad.push("is_closed() false after close() returned".into());
        }
        // the task must end
        let tw = vh::now_ms();
        loop {
            if done.load(Ordering::SeqCst) {
                ended += 1;
                break;
            }
            let el = vh::now_ms() - tw;
            if el > 500 {
                let prog = || yields.load(Ordering::SeqCst);
                // block_on parks the thread (futex) or waits in the reactor (epoll_wait / epoll_pwait)
                if vh::probe::stably_blocked_in(ktid.load(Ordering::SeqCst), &[202, 232, 281], None, 20, 20, &prog) && !done.load(Ordering::SeqCst) {
                    bad.push(format!(
                        "the stream's task is parked (stable: blocked in futex/epoll) after close() returned: next() never completes [trial {} variant {} signals {}]",
                        trial, variant, nsig
                    ));
                    break;
                }
                if el > 30_000 {
                    inconclusive = Some(format!("task neither ended nor reached a stable parked state [trial {}]", trial));
                    break;
                }
            }
            std::thread::yield_now();
        }
        if done.load(Ordering::SeqCst) {
            let _ = task.join();
        }
        yields_total += yields.load(Ordering::SeqCst);
        keys.insert(format!("variant{}:signals{}:yields{}", variant, nsig, yields.load(Ordering::SeqCst).min(3)));
        if samples.len() < 5 {
            samples.push(J::s(&format!("trial {} variant {} signals sent {} -> task ended, {} items yielded before None", trial, variant, nsig, yields.load(Ordering::SeqCst))));
        }
        if !bad.is_empty() || inconclusive.is_some() {
            break;
        }
    }
    director::uninstall();
    let mut nviol = 0;
    for b in bad.iter().take(3) {
        emit_violation("C11", if b.contains("parked") { "async-std-stream-stranded-after-close" } else { "close-misc" }, b);
        nviol += 1;
    }
    emit(&J::obj()
        .set("type", J::s("summary"))
        .set("workload", J::s("vha_async_std"))
        .set("seed", J::u(seed))
        .set("evaluations", J::u(ended))
        .set("distinct_keys", J::arr(keys.iter().map(|k| J::s(k))))
        .set("samples", J::Arr(samples))
        .set("async_std_trials_ended", J::u(ended))
        .set("async_std_items_yielded", J::u(yields_total))
        .set("violations", J::u(nviol))
        .set("wall_ms", J::u(vh::now_ms() - t0)));
    if nviol == 0 {
        if let Some(r) = inconclusive {
            emit(&J::obj().set("type", J::s("inconclusive")).set("reason", J::s(&r)));
            std::process::exit(2);
        }
    }
    std::process::exit(if nviol > 0 { 1 } else { 0 });
}
