#!/bin/sh
# Builds the verification harness offline from files on disk (native; sanitizer/Miri builds are made on demand by ./check).
set -e
cd "$(dirname "$0")/harness"
export CARGO_NET_OFFLINE=true
cargo build --release --offline --bin vh
cd ../harness-async
cargo build --release --offline --bin vha
