ENGINES = [
    {"name": "native", "path": "/verif/harness (bin vh)", "serves_properties": [], "kind_free_text": "release build of the harness with hooks on; real signals, Director failpoints, canaries, event log + offline checkers"},
    {"name": "miri", "path": "/verif/harness (bins m_*)", "serves_properties": [], "kind_free_text": "cargo +nightly miri run, -Zmiri-many-seeds sharded over processes: UB, data races under the declared orderings, leaks"},
    {"name": "vha", "path": "/verif/harness-async (bin vha)", "serves_properties": ["C11"], "kind_free_text": "the real signal-hook-async-std Signals stream driven by async_io::block_on against close() from another thread"},
    {"name": "asan", "path": "/verif/harness (bin vh, -Zsanitizer=address)", "serves_properties": [], "kind_free_text": "AddressSanitizer build of the same workloads (thorough tier)"},
]
NOTES = "Family: runtime monitoring and sanitizers. Verdicts are three-valued: exit 0 held / exit 1 + VIOLATION line / exit 2 INCONCLUSIVE (no VIOLATION line). See DESIGN.md."
NA = {}
META = {
 "C01": dict(engine="native+miri(+asan in thorough)", category="exploration",
   technique="runtime monitoring: canary actions + drop accounting under real-signal bombardment and failpoint delays/nested raises; Miri and ASan as use-after-free / data-race oracles on the half-lock",
   text="Every removal call observed (tens of thousands per run, thousands with a handler in flight at the call) is followed by canary checks: no invocation in flight after return, none starts later, captured state dropped exactly once, by the remover, at handler depth 0. Miri runs the half-lock with nested readers over many seeds and reports any use of a freed snapshot or data race permitted by the declared orderings. Held on the executions observed, not a proof.",
   note="x86-TSO for native runs; Miri's weak-memory emulation is sampled; windows are widened at hook sites, and the owner's own calls are also interrupted by a real delivery at single instructions (trap-flag stepping from each writer-side hook arrival)"),
 "C02": dict(engine="native", category="exploration",
   technique="runtime monitoring: event log (CALL/RET of owner ops, DISPATCH_ENTER/EXIT, action tags) checked offline against the per-signal sequence of registry states",
   text="Each dispatch bracket's run list must equal exactly one registry state that can have been current during the bracket; tens of thousands of brackets overlap an owner operation per run, including deliveries nested on the owner at every writer failpoint and at individual instructions after them (trap-flag stepping). Deliveries parked inside their read section while a writer registers, removes or first-registers a never-seen signal (two publications): the writer must not return, i.e. release their snapshot, while they are inside.",
   note="exactness limited to single-owner signals; definitely-before relations on one SeqCst counter only"),
}
META.update({
 "C06": dict(engine="native (+miri in thorough)", category="exploration",
   technique="runtime monitoring: unique-value histories with CALL/RET stamps checked offline against queue bad-patterns (invented, duplicate, FIFO, empty, unjustified discard, loss)",
   text="Thousands of short, closed histories per run (concurrent producers/consumers, nested batches at failpoints, real-signal senders, threads parked holding indices, one loop made to lose its compare-exchange up to 12 times in a row, a nested batch at the k-th instruction of send/recv for every k) are each checked against the complete bad-pattern set for queues with unique values, extended by the lossy rule derived in DESIGN.md. Held on the histories observed.",
   note="real-time order observed on x86-TSO only; oracle uses definitely-before relations, so it can miss but not false-alarm"),
 "C07": dict(engine="miri + native (+asan in thorough)", category="exploration",
   technique="Miri data-race/UB/leak detection on the real UnsafeCell accesses under the declared orderings; drop-counting payloads; hook-log cell-section exclusivity check",
   text="Miri judges the cell accesses by happens-before derived from the orderings in the source, so an ordering downgrade is reported on the first execution in which a value crosses threads; payload drops are counted exactly per value natively and under Miri; a forced ABA schedule (one thread held between its load of the queue word and its compare-exchange by a Relaxed-only hook while another cycles the head slot) for both dequeues; the weak compare-exchange failure rate of Miri is rotated over 0.8 / 0 / 0.3; ASan/LSan in thorough.",
   note="Miri explores a sample of interleavings/reads-from choices; no load buffering in its model"),
 "C08": dict(engine="native (+miri in thorough)", category="fault_enumeration",
   technique="failpoint sweep: nested operations injected at every channel hook site x occurrence x batch kind x fill, park sweep with all other threads frozen, CAS-iteration accounting, real-signal nesting",
   text="Every (site, occurrence, batch, fill, shape) injection is run with panics caught and loop iterations counted; with 1..5 threads parked holding indices a free thread must finish each loop in exactly one iteration and return dropped/None as appropriate.",
   note="boundaries = hook sites plus every instruction of send/recv between them (trap-flag stepping: all in thorough, every 6th in quick); spurious CAS failure only under Miri"),
})
META.update({
 "C09": dict(engine="native (+asan in thorough)", category="exploration",
   technique="runtime monitoring: burst / quiesce / stable-state probe (/proc thread state, FIONREAD, SigPnd) + offline accounting of deliveries vs yields; real deliveries nested on the consumer at its failpoints",
   text="At every stable point (hundreds per quick run, tens of thousands in thorough) a delivered watched signal - or any signal for which the instance's own action ran, also in the middle of an add_signal - without a later yield, with the consumer blocked on an empty self-pipe, is a refutation that does not depend on timing; a Pending result of poll_signal without an armed wake-up (callback not consulted / last answer not 'nothing') is reported as well. Covers wait, forever and the non-blocking poll interface, three exfiltrators, add_signal from two threads at once with a delivery nested in it.",
   note="unbounded 'eventually' restated as absence of the stable lost state; windows are widened at hook sites, and the scan of a slot is additionally interrupted by a real delivery at every single instruction (trap-flag stepping)"),
 "C10": dict(engine="native (+asan in thorough)", category="exploration",
   technique="runtime monitoring: unique per-delivery sequence numbers, independent witness action copying each siginfo, online accounting rules over the event log",
   text="Every yield is checked against the deliveries that had begun; every raw record is compared byte-for-byte with the witness copy of the same delivery and checked for duplication and per-signal delivery order; bursts exceed the 5-slot buffer. An instruction-step sweep interrupts the scan of a slot at every instruction with a delivery, or lets a second consumer thread drain another batch of the same instance completely at that instruction: never more yields than deliveries, no record twice.",
   note="count bound uses all brackets of the signal since add_signal was called (sound upper bound)"),
})
META.update({
 "C11": dict(engine="native", category="fault_enumeration",
   technique="failpoint sweep: consumer (or closer) paused at each iterator hook site while close() runs on another thread; stable-stuck-state probe; callback-consultation log per poll_signal call",
   text="Every (front-end, site, occurrence, delivery) point is run deterministically and a few hundred random-timing trials on top; is_closed is checked on every clone, the consumer must end (forever stays ended, wait never blocks again), and each Pending result must have been preceded in the same call by a callback consultation answering 'nothing'.",
   note="instants = hook sites x both orders + every instruction after each consumer hook arrival (close() run to completion by another thread while the consumer stands still there) + random + closer and consumer pinned to one CPU; the real async-std stream is run as well (next() racing close()), tokio's is not"),
})
META.update({
 "C12": dict(engine="native forked probes (+valgrind in thorough)", category="exploration",
   technique="runtime monitoring: generated operation scripts in forked children checked step by step against a reference model (hook counts, FIONREAD, fd table, waitpid status)",
   text="Thousands of scripts per exfiltrator; every rejected number in [-2,130] plus extreme integers is used as the rejected step; a real delivery is raised inside the drop of the last owner (write end must still be open); two threads add the same signal concurrently (must end up watched once, nothing left after the drop); the last two owners are dropped by two threads, one of them standing still at every single instruction of its drop while the other drops completely (trap-flag stepping). Found and, after the fix: commits, guards against: poisoned id table, abort in a failing constructor, double slot initialisation.",
   note="sequential scripts (the property is about sequences); expected outcome classes are those of this kernel and glibc"),
})
META.update({
 "C13": dict(engine="native forked probes + strace", category="exploration",
   technique="runtime monitoring: failpoint count of wake attempts per delivery, byte accounting, fcntl/fd-table probes, /proc syscall probe for a blocked delivery, strace trace checked per delivery bracket and per descriptor",
   text="15 (kind, fill) scenarios with >1000 deliveries each, rejected registrations, invalid descriptors and thousands of register/unregister cycles with number reuse; the strace oracle sees the actual write/sendto/close syscalls; the iterator's own write end is covered by instance scripts with a delivery raised during the owner's drop; further: a delivery at the moment of publication inside the registration call, errno left at EINTR/EAGAIN/EPIPE by the interrupted code, a registered pipe whose reader has gone away (the wake-up is given up, not retried), 1500 deliveries on the consumer's own thread with a full self-pipe.",
   note="a blocked delivery is decided from the child's stable syscall state, not from a timeout"),
 "C14": dict(engine="native forked probes (+valgrind in thorough)", category="exploration",
   technique="complete enumeration of (entry point x signal number x context) in forked children with the kernel, sigaction(2) and the fd table as oracles",
   text="The finite grid (about 6900 cases: 17 entry points incl. add_signal on a closed instance x 140 numbers x 3 contexts incl. 'after an unchecked registration of the same number', plus 'the handed-over descriptor is number 0' for the pipe entry points) is run completely in the thorough tier, all forbidden numbers and a seeded third of the rest in quick; the refused action's captured state removes a companion registration in its Drop (a deadlocked child is a verdict); each case checks the outcome class and, after a refusal, that dispositions, registry, captured state and descriptors are as before and the entry point still works; strace flags a second close of a handed-over descriptor.",
   note="classes come from this kernel/glibc and the published FORBIDDEN list"),
 "C15": dict(engine="native forked probes", category="exploration",
   technique="generated sequential scripts in forked children with waitpid status and marker pipe against the script's own model; complete grid of the double-Ctrl-C recipe up to length 6",
   text="Every arm/disarm history up to length 6 in both registration orders plus thousands of random scripts over all exit statuses, signals and both conditional actions, half of them in multi-threaded children (a shutdown that ends only the delivering thread is seen by a second thread); scripts with a stale id removed again after the recipe was registered, with another thread living inside deliveries of an unrelated signal, and the recipe registered by two threads at once next to 80 other registrations.",
   note="sequential scripts only (the property is about sequences)"),
 "C16": dict(engine="native forked probes", category="exploration",
   technique="paired forked probes (kernel default vs emulation) over the complete signal-number grid in three contexts, waitpid(WUNTRACED) as oracle",
   text="Complete in both tiers: 70 numbers x 6 contexts (plain, inside own action, blocked, another signal blocked and pending, on a non-main thread, currently ignored); a terminating signal sent while the process is stopped through the emulation; another thread registering for the same signal at the k-th instruction of the emulation (trap-flag stepping, one forked child per instant); the harness process has used low_level::raise before it forks. Found the SIGIO mismatch on Linux (fixed by a fix: commit).",
   note="oracle is this kernel; process group arranged to be non-orphaned"),
 "C17": dict(engine="native forked probes", category="exploration",
   technique="exhaustive synthetic record grid against an independent table + real sends through every mechanism with the raw record cross-read by libc accessors",
   text="69632 synthetic records (every cause code the extractor distinguishes and 250 it must not, each with 4 pid/uid variants incl. legitimate zeros) and ~285 real (mechanism, signal) probes including children, timers and SIGPIPE; four threads extracting six kinds of records at once and a handler that extracts while it interrupts an extraction (signal, cause and process must be those of the own record); the driver forces a rebuild when extract.c changes (cargo does not track it).",
   note="kernel and glibc of this sandbox are the ground truth"),
})
META.update({
 "C04": dict(engine="native forked probes", category="fault_enumeration",
   technique="failpoint sweep: a real delivery raised at every step of the first registration (and bombardment of other threads), foreign handler and actions logging unique per-delivery sequence numbers and argument pointers",
   text="Per trial the log must show the previous handler exactly once per delivered sequence number, first, with the kernel's info pointer; hundreds of deliveries per run go through the race-fallback path (the window between sigaction() and the publication of the slot). Further histories: the foreign handler replaced between the library's look at the disposition and its sigaction(); the same foreign handler on two signals; another thread starting a first registration while this one is held right after its sigaction(); an application handler installed on top of the library's that chains back to it (must run once, not recurse). A delivery inside the sigaction-to-publication window is also parked at every failpoint of the dispatcher in turn while the registration completes and another signal's first registration overwrites the race fallback: H exactly once.",
   note="arrival instants = hook sites, every instruction between them (trap-flag stepping of the registering thread; all in thorough, every 5th in quick) + random bombardment; chaining cannot be run under Miri"),
 "C05": dict(engine="native forked probes", category="exploration",
   technique="runtime monitoring against an executable reference model (per-signal ordered Vec of (id, tag)) with a delivery after every operation; sigaction(2) and a blocked read(2) as kernel oracles",
   text="About 320k operations per quick run (millions in thorough) over 16 seeds on up to 55 signals; every delivery's ordered run list must equal the model's. A second mode runs 3 owner threads with disjoint signals and one model each: what one thread does to its signals must never change another thread's (catches lost updates between writers). Further children: previous handlers with one-shot / no-defer flags before the take-over, four threads registering on one signal while it is delivered (each delivery's list is a prefix of the next), two removers of one registration, actions whose captured state panics in Drop (the removal unwinds; the model says removed).",
   note="per-signal histories are sequential (single owner per signal); job-control signals are left out of the concurrent mode because the kernel discards pending stop signals when SIGCONT is generated"),
})
META.update({
 "C03": dict(engine="native forked probes + strace + counting allocator", category="fault_enumeration",
   technique="failpoint freeze sweep (operator thread parked at every site while deliveries of every built-in action set run on another thread and nested on the same thread, step counts compared with an interference-free baseline, /proc stuck-state probe) + strace syscall allow-list per delivery bracket + counting global allocator under real-signal stress",
   text="234 (operation, variant, site, occurrence) points and 1170 deliveries in every run; every delivery must finish and pass exactly the baseline number of failpoints; strace shows only write/sendto inside handlers; zero heap operations inside millions of dispatches. Three-party state: deliveries parked in the dispatcher, a writer waiting for them inside the first registration of another signal, further deliveries sent then must reach their snapshot and none may sleep in futex.",
   note="boundaries = failpoints deterministically, arbitrary instructions only for the allocator monitor"),
 "C18": dict(engine="native", category="exploration",
   technique="runtime monitoring: gate-orchestrated schedules with the writer's own barrier iterations as the clock, offline log rule on HL_B_SPIN vs bracket exits, stable-stuck-state probe at quiescent points of a free-running mutator mix",
   text="Hundreds to thousands of gate trials (both slot roles, 1..3 held deliveries per wave) and a free-running mix with forbidden-signal panics and concurrent first registrations; all criteria count the writer's own iterations or rest on stability, never on elapsed time. A forked probe removes actions whose captured state calls the registry from its Drop (a guard that unregisters a companion; the last Handle of an iterator instance): on the unchanged tree that removal dead-locks - a genuine defect recorded as a known finding (known_findings.json, DESIGN.md section 6), reported as KNOWN-FINDING while every other C18 violation is still a VIOLATION. Mutators also remove actions whose captured state panics in Drop; no later registry call may panic.",
   note="bounded restatement of liveness; infinite adversarial delivery streams are out of reach for finite runs"),
})
