ENGINES = [
    {"name": "native", "path": "/verif/harness (bin vh)", "serves_properties": [], "kind_free_text": "release build of the harness with hooks on; real signals, Director failpoints, canaries, event log + offline checkers"},
    {"name": "miri", "path": "/verif/harness (bins m_*)", "serves_properties": [], "kind_free_text": "cargo +nightly miri run, -Zmiri-many-seeds sharded over processes: UB, data races under the declared orderings, leaks"},
    {"name": "asan", "path": "/verif/harness (bin vh, -Zsanitizer=address)", "serves_properties": [], "kind_free_text": "AddressSanitizer build of the same workloads (thorough tier)"},
]
NOTES = "Family: runtime monitoring and sanitizers. Verdicts are three-valued: exit 0 held / exit 1 + VIOLATION line / exit 2 INCONCLUSIVE (no VIOLATION line). See DESIGN.md."
NA = {}
META = {
 "C01": dict(engine="native+miri(+asan in thorough)", category="exploration",
   technique="runtime monitoring: canary actions + drop accounting under real-signal bombardment and failpoint delays/nested raises; Miri and ASan as use-after-free / data-race oracles on the half-lock",
   text="Every removal call observed (tens of thousands per run, thousands with a handler in flight at the call) is followed by canary checks: no invocation in flight after return, none starts later, captured state dropped exactly once, by the remover, at handler depth 0. Miri runs the half-lock with nested readers over many seeds and reports any use of a freed snapshot or data race permitted by the declared orderings. Held on the executions observed, not a proof.",
   note="x86-TSO for native runs; Miri's weak-memory emulation is sampled; hook sites mark the windows that get widened"),
 "C02": dict(engine="native", category="exploration",
   technique="runtime monitoring: event log (CALL/RET of owner ops, DISPATCH_ENTER/EXIT, action tags) checked offline against the per-signal sequence of registry states",
   text="Each dispatch bracket's run list must equal exactly one registry state that can have been current during the bracket; tens of thousands of brackets overlap an owner operation per run, including deliveries nested on the owner at every writer failpoint.",
   note="exactness limited to single-owner signals; definitely-before relations on one SeqCst counter only"),
}
