#!/usr/bin/env python3
"""Seeded-defect bookkeeping.

  seedtest.py confirm <dir>...        confirm a candidate in a scratch worktree (/tmp/seedwt): patch applies, workspace
                                      builds, existing suite passes, demo fails with the patch and passes without it
  seedtest.py detect <dir> <pid>...   apply the patch to /repo, run ./check <pid> (quick) for each pid, undo; records
                                      which checks raised a VIOLATION
  seedtest.py adopt <dir> <id>        copy patch.diff / demo / meta.json into /verif/seeded/<id>/

<dir> holds patch.diff, demo.rs, notes.md (as written by the sub-agents).
"""
import json
import os
import re
import shutil
import subprocess
import sys
import time

WT = "/tmp/seedwt"
ENV = dict(os.environ, CARGO_NET_OFFLINE="true")


def sh(cmd, cwd=None, timeout=1800):
    t0 = time.time()
    try:
        p = subprocess.run(cmd, cwd=cwd, shell=isinstance(cmd, str), capture_output=True, text=True, errors="replace",
                           timeout=timeout, env=ENV)
        return p.returncode, p.stdout + p.stderr, time.time() - t0
    except subprocess.TimeoutExpired as e:
        out = (e.stdout or b"").decode(errors="replace") if isinstance(e.stdout, bytes) else (e.stdout or "")
        return 124, out + "\nTIMEOUT", time.time() - t0


def ensure_wt():
    if not os.path.isdir(WT):
        rc, out, _ = sh(["git", "-C", "/repo", "worktree", "add", "--detach", WT, "HEAD"])
        assert rc == 0, out
    else:
        sh(["git", "checkout", "--detach", "-q", subprocess.run(["git", "-C", "/repo", "rev-parse", "HEAD"], capture_output=True, text=True).stdout.strip()], cwd=WT)
        sh("git reset -q --hard && git clean -fdq -e target", cwd=WT)


def apply_patch(repo, patch):
    rc, out, _ = sh(["git", "apply", "--whitespace=nowarn", patch], cwd=repo)
    if rc != 0:
        rc, out, _ = sh(["git", "apply", "--3way", "--whitespace=nowarn", patch], cwd=repo)
        if rc == 0:
            sh(["git", "reset", "-q"], cwd=repo)  # keep the change in the working tree only
    return rc, out


def demo_info(d):
    notes = open(os.path.join(d, "notes.md"), errors="replace").read()
    paths = re.findall(r"((?:signal-hook-registry/|signal-hook-async-std/|signal-hook-tokio/|signal-hook-mio/)?(?:tests|examples)/[A-Za-z0-9_]+\.rs)", notes)
    paths = [p for p in paths if os.path.basename(p) not in ("default.rs", "iterator.rs", "shutdown.rs", "print.rs", "tests.rs", "async_std.rs", "unregister_signal.rs")]
    cmds = [c.strip() for c in re.findall(r"(cargo (?:test|run)[^`\n]*)", notes) if re.search(r"--(test|example) ", c)]
    if not paths or not cmds:
        return None, None
    best = max(set(paths), key=paths.count)
    name = os.path.basename(best)[:-3]
    cmd = next((c for c in cmds if name in c), cmds[0])
    cmd = re.sub(r"\s+2>&1.*$", "", cmd)
    if "--offline" not in cmd:
        cmd = cmd.replace("cargo test", "cargo test --offline").replace("cargo run", "cargo run --offline")
    return best, cmd


def confirm(d):
    ensure_wt()
    res = {"dir": d, "at": time.strftime("%F %T")}
    patch = os.path.join(d, "patch.diff")
    rc, out = apply_patch(WT, patch)
    res["applies"] = rc == 0
    if rc != 0:
        res["apply_output"] = out[-800:]
        sh("git reset -q --hard && git clean -fdq -e target", cwd=WT)
        return res
    sh("touch build.rs", cwd=WT)  # the cc build script does not track extract.c
    rc, out, dt = sh("cargo build --workspace --offline 2>&1 | tail -3", cwd=WT)
    res["builds"] = "error" not in out.lower() or "warning" in out.lower() and "could not compile" not in out
    rc, out, dt = sh("cargo test --workspace --no-fail-fast --offline 2>&1 | grep -E '^test result|FAILED|panicked|could not compile'", cwd=WT)
    passed = sum(int(m) for m in re.findall(r"(\d+) passed", out))
    failed = sum(int(m) for m in re.findall(r"(\d+) failed", out)) + out.count("could not compile")
    res["suite_passed"] = passed
    res["suite_failed"] = failed
    res["suite_wall_s"] = round(dt, 1)
    path, cmd = demo_info(d)
    res["demo_path"], res["demo_cmd"] = path, cmd
    if path:
        os.makedirs(os.path.dirname(os.path.join(WT, path)), exist_ok=True)
        shutil.copy(os.path.join(d, "demo.rs"), os.path.join(WT, path))
        rc, out, dt = sh(cmd, cwd=WT, timeout=400)
        res["demo_with_patch"] = {"exit": rc, "wall_s": round(dt, 1), "tail": out[-600:]}
        sh("git reset -q --hard && touch build.rs", cwd=WT)
        rc, out, dt = sh(cmd, cwd=WT, timeout=400)
        res["demo_without_patch"] = {"exit": rc, "wall_s": round(dt, 1), "tail": out[-300:]}
        os.unlink(os.path.join(WT, path))
    sh("git reset -q --hard && git clean -fdq -e target", cwd=WT)
    res["confirmed"] = bool(res["applies"] and failed == 0 and passed >= 36 and path and res["demo_with_patch"]["exit"] != 0 and res["demo_without_patch"]["exit"] == 0)
    return res


def detect(d, pids):
    patch = os.path.join(d, "patch.diff")
    st = subprocess.run(["git", "-C", "/repo", "status", "--porcelain"], capture_output=True, text=True).stdout.strip()
    assert st == "", "/repo is not clean: " + st
    res = {"dir": d, "at": time.strftime("%F %T"), "checks": {}}
    rc, out = apply_patch("/repo", patch)
    if rc != 0:
        res["applies"] = False
        res["apply_output"] = out[-800:]
        sh("git reset -q --hard", cwd="/repo")
        return res
    res["applies"] = True
    try:
        for pid in pids:
            rc, out, dt = sh(["./check", pid, "--tier", "quick"], cwd="/verif", timeout=1500)
            viol = [l for l in out.splitlines() if l.startswith("VIOLATION") or l.startswith("violation:")]
            res["checks"][pid] = {"exit": rc, "wall_s": round(dt, 1), "lines": [v[:400] for v in viol[:3]],
                                  "last": out.strip().splitlines()[-1][:300] if out.strip() else ""}
    finally:
        sh("git reset -q --hard && git clean -fdq -e target", cwd="/repo")
    # evidence files were rewritten by the mutant runs: restore them from git
    sh("git checkout -- evidence", cwd="/verif")
    return res


def main():
    cmd = sys.argv[1]
    if cmd == "confirm":
        for d in sys.argv[2:]:
            r = confirm(d.rstrip("/"))
            json.dump(r, open(os.path.join(d, "confirm.json"), "w"), indent=1)
            print(os.path.basename(d.rstrip("/")), "confirmed" if r.get("confirmed") else "NOT CONFIRMED",
                  {k: r.get(k) for k in ("applies", "suite_passed", "suite_failed")},
                  (r.get("demo_with_patch") or {}).get("exit"), (r.get("demo_without_patch") or {}).get("exit"), flush=True)
    elif cmd == "detect":
        d = sys.argv[2].rstrip("/")
        r = detect(d, sys.argv[3:])
        prev = {}
        f = os.path.join(d, "detect.json")
        if os.path.exists(f):
            prev = json.load(open(f))
            prev.get("checks", {}).update(r.get("checks", {}))
            r["checks"] = prev.get("checks", r.get("checks"))
        json.dump(r, open(f, "w"), indent=1)
        print(os.path.basename(d), {p: (c["exit"], c["lines"][:1]) for p, c in r.get("checks", {}).items()} if r.get("applies") else "PATCH DOES NOT APPLY", flush=True)
    elif cmd == "adopt":
        d, sid = sys.argv[2].rstrip("/"), sys.argv[3]
        dst = os.path.join("/verif/seeded", sid)
        os.makedirs(dst, exist_ok=True)
        for f in ("patch.diff", "patch.orig.diff", "REBASED.txt", "demo.rs", "demo_stress.rs", "demo_async_std.rs", "notes.md"):
            if os.path.exists(os.path.join(d, f)):
                shutil.copy(os.path.join(d, f), os.path.join(dst, f))
        conf = json.load(open(os.path.join(d, "confirm.json")))
        det = json.load(open(os.path.join(d, "detect.json"))) if os.path.exists(os.path.join(d, "detect.json")) else {}
        summaries = json.load(open("/verif/tools/seed_summaries.json"))
        meta = {
            "id": sid,
            "summary": summaries.get(sid, ""),
            "breaks_property": sid.split("-")[0],
            "needs_to_manifest": (summaries.get(sid, "") + " (details: notes.md in this directory)").strip(),
            "confirmed": {k: conf.get(k) for k in ("applies", "suite_passed", "suite_failed", "demo_path", "demo_cmd", "confirmed")},
            "demo_with_patch_exit": (conf.get("demo_with_patch") or {}).get("exit"),
            "demo_without_patch_exit": (conf.get("demo_without_patch") or {}).get("exit"),
            "what_was_run": ["tools/seedtest.py confirm (scratch worktree /tmp/seedwt): git apply, cargo build --workspace, cargo test --workspace, demo with and without the patch",
                             "tools/seedtest.py detect: git -C /repo apply, ./check <pid> --tier quick, git -C /repo checkout -- ."],
            "detected_by": {p: {"exit": c["exit"], "first_line": (c["lines"] or [""])[0]} for p, c in det.get("checks", {}).items()},
        }
        if conf.get("confirmed_by_hand"):
            meta["confirmed"]["by_hand"] = conf["confirmed_by_hand"]
        json.dump(meta, open(os.path.join(dst, "meta.json"), "w"), indent=1)
        print("adopted", sid)


if __name__ == "__main__":
    main()
