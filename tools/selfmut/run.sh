#!/bin/sh
# Sanity mutants made from the example defects that the property texts name themselves.
# Applies each to /repo, runs the quick check of its property, undoes it; prints one line per mutant.
# Needs /repo clean and nobody else using it. Usage: tools/selfmut/run.sh [name...]
cd /verif
HERE=/verif/tools/selfmut
names="$@"; [ -z "$names" ] && names=$(ls -d $HERE/*/ | xargs -n1 basename)
for n in $names; do
  d=$HERE/$n; p=$(cat $d/prop)
  [ -n "$(git -C /repo status --porcelain)" ] && { echo "repo dirty"; exit 1; }
  git -C /repo apply $d/patch.diff || { echo "$n: patch failed"; continue; }
  out=$(./check $p 2>&1 | grep -E "^(violation:|VIOLATION|HELD|INCONCLUSIVE)" | head -2 | cut -c1-220 | tr '\n' ' ')
  git -C /repo reset -q --hard
  echo "$n [$p]: $out"
done
git -C /verif checkout -- evidence
echo SELFDONE
