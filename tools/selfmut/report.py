#!/usr/bin/env python3
"""Turns the output of tools/selfmut/run.sh into seeded/SELFMUTANTS.md.  usage: report.py <run.log>"""
import os, re, sys
HERE = os.path.dirname(os.path.abspath(__file__))
DESCR = {
 "c01-count-after-ptr": "reader takes its count after loading the snapshot pointer",
 "c01-one-slot": "write barrier waits on one of the two reader slots only",
 "c01-nonatomic-inc": "reader count incremented with load + store instead of fetch_add",
 "c01-nonatomic-dec": "reader count decremented with load + store instead of fetch_sub",
 "c02-reverse": "dispatcher runs the actions in reverse order",
 "c03-vec-collect": "dispatcher collects the actions into a Vec (allocation in the handler)",
 "c04-inverted-siginfo": "SA_SIGINFO test of the previous handler inverted (wrong calling convention)",
 "c04-prev-after": "previous handler called after the actions",
 "c05-no-restart": "SA_RESTART dropped from the library's handler",
 "c05-stale-true": "unregister of an already removed id reports true",
 "c06-premature-full": "send reports 'full' with fewer than five values outstanding",
 "c06-shift": "wrong bit shift for queue positions 3-4",
 "c07-relaxed-deq": "dequeue's compare-exchange downgraded to Relaxed",
 "c07-relaxed-enq": "enqueue's compare-exchange downgraded to Relaxed",
 "c08-load-store": "queue update as load-then-store instead of compare-exchange",
 "c09-scan-before-drain": "pending() creates the Pending before flush() (EQUIVALENT: Pending is lazy, the scan still follows the drain)",
 "c10-neighbour": "load reports the neighbouring signal number for the last slot",
 "c13-never-closed": "write end never closed when the action is removed",
 "c15-exit": "conditional shutdown uses exit() instead of _exit()",
 "c15-status": "conditional shutdown exits with a wrong status",
 "c16-noprocmask": "emulation does not unblock the signal before re-raising",
 "c16-wrong-kind": "wrong default kind in the signal table",
 "c17-swap": "pid and uid swapped",
 "c17-tkill-user": "SI_TKILL reported as Sent(User)",
 "c18-lock-order": "dispatcher takes the writer mutex (lock-order inversion)",
}
rows = []
for l in open(sys.argv[1]):
    m = re.match(r"(\S+) \[(C\d\d)\]: (.*)", l)
    if not m:
        continue
    name, pid, out = m.groups()
    caught = "VIOLATION" in out
    first = re.sub(r"\s*VIOLATION property=.*", "", out).replace("|", "/").strip()[:170]
    rows.append((name, pid, caught, first))
out = ["# Sanity mutants made from the example defects the property texts name", "",
       "Patches: `tools/selfmut/<name>/patch.diff`; run with `tools/selfmut/run.sh` (applies each to /repo, runs the quick check of its property, undoes it).", "",
       "| mutant | property | what it does | caught by the property's quick check | first report |", "|---|---|---|---|---|"]
for name, pid, caught, first in rows:
    out.append("| %s | %s | %s | %s | %s |" % (name, pid, DESCR.get(name, ""), "yes" if caught else "no", first if caught else first))
out.append("")
out.append("%d of %d caught." % (sum(1 for r in rows if r[2]), len(rows)))
open("/verif/seeded/SELFMUTANTS.md", "w").write("\n".join(out) + "\n")
print("written", len(rows))
