#!/usr/bin/env python3
"""Regenerates the seeded-defect table in DESIGN.md (between the SEED-MATRIX markers) and seeded/README.md
from seeded/*/meta.json."""
import json, glob, os, re
ROOT = os.path.dirname(os.path.dirname(os.path.abspath(__file__)))
rows = []
for mf in sorted(glob.glob(os.path.join(ROOT, "seeded", "*", "meta.json"))):
    m = json.load(open(mf))
    det = m.get("detected_by", {})
    caught = [p for p, d in det.items() if d["exit"] == 1]
    missed = [p for p, d in det.items() if d["exit"] == 0]
    incon = [p for p, d in det.items() if d["exit"] not in (0, 1)]
    first = ""
    own = m["breaks_property"]
    src = det.get(own) or (det[caught[0]] if caught else None)
    if src:
        first = re.sub(r"^violation: ", "", src.get("first_line", ""))[:110].replace("|", "/")
    rows.append((m["id"], m.get("summary", ""), ", ".join(caught) or "-", ", ".join(missed + [p + "(inconclusive)" for p in incon]) or "-", first))
lines = ["| seeded change | what it does / what it needs | caught by (quick tier) | run but silent | first report |", "|---|---|---|---|---|"]
for r in rows:
    lines.append("| %s | %s | %s | %s | %s |" % r)
table = "\n".join(lines)
own_caught = sum(1 for r in rows if r[0].split("-")[0] in r[2].split(", "))
summary = "\n\n%d seeded changes kept; %d are caught by the check of the property they were written against, %d by at least one check." % (
    len(rows), own_caught, sum(1 for r in rows if r[2] != "-"))
p = os.path.join(ROOT, "DESIGN.md")
s = open(p).read()
s = re.sub(r"<!-- SEED-MATRIX-BEGIN -->.*<!-- SEED-MATRIX-END -->", "<!-- SEED-MATRIX-BEGIN -->\n" + table + summary + "\n<!-- SEED-MATRIX-END -->", s, flags=re.S)
open(p, "w").write(s)
open(os.path.join(ROOT, "seeded", "README.md"), "w").write("# Seeded defects\n\n" + table + summary + "\n")
print(summary.strip())
