#!/usr/bin/env python3
"""Regenerates MANIFEST.json from lib/plans.py and tools/manifest_meta.py."""
import json, os, subprocess, sys
ROOT = os.path.dirname(os.path.dirname(os.path.abspath(__file__)))
sys.path.insert(0, os.path.join(ROOT, "lib"))
sys.path.insert(0, os.path.join(ROOT, "tools"))
import plans, manifest_meta as mm

props = [json.loads(l) for l in open(os.path.join(ROOT, "properties.jsonl"))]
hook_commits = subprocess.run(["git", "-C", "/repo", "log", "--format=%H %s"], capture_output=True, text=True).stdout.splitlines()
hook_commits = [l.split()[0] for l in hook_commits if l.split(" ", 1)[1].startswith("verif hooks")]
checks, na = [], []
for p in props:
    pid = p["id"]
    if pid in plans.PLANS and pid in mm.META:
        m = mm.META[pid]
        checks.append({
            "property_id": pid,
            "quick_cmd": "./check %s --tier quick" % pid,
            "thorough_cmd": "./check %s --tier thorough" % pid,
            "evidence_file": "/verif/evidence/%s.json" % pid,
            "replay_cmd_template": "./check %s --replay {path}" % pid,
            "engine": m["engine"],
            "level_claimed": {"category": m["category"], "text": m["text"], "design_ref": "DESIGN.md section 4, " + pid},
            "level_note": m["note"],
            "technique": m["technique"],
        })
    else:
        na.append({"property_id": pid, "reason": mm.NA.get(pid, "check not built yet in this tree (runtime-monitoring workload pending); not claimed")})
man = {
    "version": 1,
    "setup_cmd": "./setup.sh",
    "hooks": {
        "guard": "cargo feature `verif-hooks` (signal-hook and signal-hook-registry), off by default",
        "enable": "the harness crate /verif/harness depends on /repo by path with features = [\"verif-hooks\", \"extended-siginfo\"]",
        "baseline_off_cmd": "cd /repo && cargo test --workspace --no-fail-fast --offline",
        "source_commits": hook_commits,
        "add_only": True,
    },
    "engines": mm.ENGINES,
    "checks": checks,
    "not_applicable": na,
    "notes": mm.NOTES,
}
json.dump(man, open(os.path.join(ROOT, "MANIFEST.json"), "w"), indent=1)
print("checks:", [c["property_id"] for c in checks], "na:", [n["property_id"] for n in na])
