#!/usr/bin/env python3-vt
import json, sys, glob, jsonschema
m = json.load(open('/verif/MANIFEST.json')); jsonschema.validate(m, json.load(open('/root/.vp/MANIFEST.schema.json')))
s = json.load(open('/root/.vp/EVIDENCE.schema.json'))
for c in m['checks']:
    try:
        e = json.load(open(c['evidence_file'])); jsonschema.validate(e, s)
        print(c['property_id'], 'evidence ok', e['tier'], e['coverage'].get('evaluations'), e['coverage'].get('distinct_nontrivial'), e['wall_s'])
    except Exception as ex:
        print(c['property_id'], 'EVIDENCE PROBLEM', str(ex)[:200])
print('manifest ok; claimed', len(m['checks']), 'not_applicable', len(m.get('not_applicable', [])))
